"""Generators of formula texts for the grammar / algebra properties (C01, C02, C12)."""
import random

from fmon.ref import grammar as G

ALPHABET = ["a", "b", "1", "0", "2", "+", "-", "*", "/", ":", "**", "|", "~", "(", ")", "f", ",",
            "=", "==", "[", "]", "{", "}", "'s'", "`q`"]


def nth_string(k, length, alphabet=ALPHABET):
    n = len(alphabet)
    out = []
    for _ in range(length):
        out.append(alphabet[k % n])
        k //= n
    return " ".join(reversed(out))


def total_strings(length, alphabet=ALPHABET):
    return len(alphabet) ** length


NAMES = ["a", "b", "c", "x", "z", "g", "h", "x1", "mod.fn", "df.col_1", "Ab",
         # near-literals and near-keywords are plain names; characters that a Unicode normalisation
         # would rewrite (MICRO SIGN, superscript two, the fi ligature, full-width a) are kept as written
         "true", "none", "TRUE", "False_", "nan", "e1", "in", "\u00b5g", "x\u00b2", "\ufb01x", "\uff41"]
BQ = ["`q`", "`q q`", "`a+b`", "`x:y`", "`1st`", "`(p)`", "`~`", "`é|`", "`\u00b5 m`", "`True`", "`a\\b`"]
FUNCS = ["f", "g2", "np.log", "center", "C", "mod.sub.fun"]
STRS = ["'s'", '"s"', "'a b'", '"x:y"', "''", "'+'", '"(1|g)"', "'Z\u00fcrich'", "'\u00b5g'", "'a\\nb'", '"\u212b"',
        # a quote of the other kind inside: the scanner ends a string at EITHER quote, so these are not sentences
        "'5\"'", '"it\'s"', "'\"hi\"'"]
NUMS = ["0", "1", "2", "3", "10", "1.5", ".5", "0.0", "007"]


def py_expr(rng, depth):
    """AST of a Python-like argument expression."""
    r = rng.random()
    if depth <= 0 or r < 0.25:
        c = rng.random()
        if c < 0.45:
            return ("var", rng.choice(NAMES), None)
        if c < 0.7:
            t = rng.choice(NUMS)
            return G.parse(t, add_intercept=False)
        if c < 0.8:
            lex = rng.choice(STRS)
            return ("lit", lex[1:-1], lex)
        if c < 0.9:
            v = rng.choice([True, False, None])
            return ("lit", v, None)
        return ("bq", rng.choice(BQ))
    if r < 0.6:
        op = rng.choice(["+", "-", "*", "/", "**", "+", "*"])
        return ("bin", op, py_expr(rng, depth - 1), py_expr(rng, depth - 1))
    if r < 0.7:
        return ("un", rng.choice("+-"), py_expr(rng, depth - 1))
    if r < 0.8:
        return ("bin", rng.choice(sorted(G.CMP)), py_expr(rng, depth - 1), py_expr(rng, depth - 1))
    return call_atom(rng, depth - 1)


def sign_power(rng):
    """-x ** n, 2 ** x ** 2, x ** -y: the shapes on which formula and Python precedence differ."""
    x = ("var", rng.choice(NAMES[:6]), None)
    n = ("lit", rng.choice([2, 3]), None)
    r = rng.random()
    if r < 0.5:
        return ("bin", "**", ("un", "-", x), n)
    if r < 0.75:
        return ("bin", "**", ("bin", "**", n, x), n)
    return ("un", "-", ("bin", "**", x, ("un", "-", n)))


def call_atom(rng, depth):
    nargs = rng.choice([0, 1, 1, 1, 2, 3, 4])
    args = [sign_power(rng) if rng.random() < 0.2 else py_expr(rng, depth) for _ in range(nargs)]
    kws, used = [], set()
    for _ in range(rng.choice([0, 0, 1, 2])):
        k = rng.choice(["k", "df", "ref", "levels", "kw1"])
        if k in used:
            continue
        used.add(k)
        kws.append(("kw", k, py_expr(rng, depth)))
    return ("call", ("var", rng.choice(FUNCS), None), args + kws)


def term_expr(rng, depth, allow_pipe=True):
    """AST of a formula-level expression."""
    r = rng.random()
    if depth <= 0 or r < 0.22:
        c = rng.random()
        if HOSTILE[0] and c < 0.06:
            # the subset notation away from the response (a predictor, an effect, a grouping factor): refused,
            # or at least the level is not silently dropped
            return ("var", rng.choice(NAMES[:7]), rng.choice(["l", "u", "lv l", "1"]))
        if c < 0.5:
            return ("var", rng.choice(NAMES), None)
        if c < 0.62:
            return ("lit", rng.choice([0, 1, 1, 2, 3]), None)
        if c < 0.72:
            return ("bq", rng.choice(BQ))
        return call_atom(rng, min(depth, 2))
    if r < 0.3:
        return ("un", rng.choice("+-"), term_expr(rng, depth - 1, allow_pipe))
    if r < 0.38 and allow_pipe:
        # now and then a group-specific term inside either side of another one: refused, or nothing of it is dropped
        return ("bin", "|", term_expr(rng, depth - 1, rng.random() < 0.15), term_expr(rng, depth - 1, rng.random() < 0.1))
    if HOSTILE[0] and r < 0.395 and depth >= 2:
        # a whole formula with its own ~ in parentheses as an operand: refused, or its response is not lost
        inner = ("bin", "~", ("var", rng.choice(["y", "resp"]), None), term_expr(rng, depth - 2, allow_pipe))
        return ("bin", rng.choice(["+", "-", ":", "*", "/"]), *rng.sample([inner, term_expr(rng, depth - 1, allow_pipe)], 2))
    if r < 0.43:
        if rng.random() < 0.2:
            # exponents the algebra has no meaning for: refused, or at least not silently dropped
            e = rng.choice([("var", rng.choice(NAMES[:6]), None), ("lit", 2.5, None), ("lit", 2.0, None),
                            ("call", ("var", "f", None), [("var", "c", None)]),
                            ("bin", ":", ("var", "c", None), ("var", "z", None))])
            return ("bin", "**", term_expr(rng, depth - 1, allow_pipe), e)
        return ("bin", "**", term_expr(rng, depth - 1, allow_pipe), ("lit", rng.choice([1, 2, 3]), None))
    op = rng.choice(["+", "+", "+", "-", "*", "/", ":", ":", "*"])
    return ("bin", op, term_expr(rng, depth - 1, allow_pipe), term_expr(rng, depth - 1, allow_pipe))


def formula_ast(rng, depth):
    rhs = term_expr(rng, depth)
    r = rng.random()
    if r < 0.25:
        return rhs
    if r < 0.75:
        lhs = ("var", rng.choice(["y", "resp", "y2"]), None)
    elif r < 0.85:
        lhs = ("var", "y", rng.choice(["l", "lv l", "A", "1x"]))
    elif r < 0.92:
        lhs = ("bq", rng.choice(BQ))
    else:
        lhs = call_atom(rng, 1)
    return ("bin", "~", lhs, rhs)


HOSTILE = [False]


def sentence(rng, depth=None):
    """(text with minimal parentheses, the generating AST).  One sentence in seven may contain the constructs
    that are refused rather than interpreted (a level away from the response, a ~ inside parentheses)."""
    depth = depth if depth is not None else rng.choice([1, 2, 2, 3, 3, 4, 5, 6, 8])
    HOSTILE[0] = rng.random() < 0.15
    if HOSTILE[0]:
        depth = min(depth, 4)
    ast = formula_ast(rng, depth)
    return G.minimal(ast), ast


def mutate(text, rng):
    """Character / token level mutants aimed at the complement of the language."""
    kind = rng.randrange(9)
    brackets = [i for i, ch in enumerate(text) if ch in "()[]{}'\"`~,"]
    if kind == 0 and brackets:  # drop one bracket / quote / tilde
        i = rng.choice(brackets)
        return text[:i] + text[i + 1 :]
    if kind == 1 and brackets:  # duplicate one
        i = rng.choice(brackets)
        return text[:i] + text[i] + text[i:]
    if kind == 2:  # left-over tokens at the end
        return text + " " + rng.choice(["z", ")", "]", "}", "1", "'s'", "z w", "| g", "== 2", ".", "~ b", ",", "`q`", "f(", "%", "!", "//"])
    if kind == 3:  # left-over / juxtaposed operand inside
        toks = text.split(" ")
        i = rng.randrange(len(toks) + 1)
        toks.insert(i, rng.choice(["a", "1", ")", "(", "~", ",", "=", "[", "'s'", "**", "!", "%", "//", "."]))
        return " ".join(toks)
    if kind == 4:  # delete a token
        toks = text.split(" ")
        if len(toks) > 1:
            del toks[rng.randrange(len(toks))]
        return " ".join(toks)
    if kind == 5:  # swap two adjacent tokens
        toks = text.split(" ")
        if len(toks) > 1:
            i = rng.randrange(len(toks) - 1)
            toks[i], toks[i + 1] = toks[i + 1], toks[i]
        return " ".join(toks)
    if kind == 6:  # illegal character
        i = rng.randrange(len(text) + 1)
        return text[:i] + rng.choice(["$", "@", "#", "\\", "^", "&", ";", "?", "_x", "\x00", "²"]) + text[i:]
    if kind == 7:  # second tilde somewhere
        i = rng.randrange(len(text) + 1)
        return text[:i] + " ~ " + text[i:]
    # trailing garbage after closing
    return text + rng.choice([")", " )", "]]", " }", "'", '"', "`", " '", " (", " ["])
