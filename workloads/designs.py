"""Structured design specifications: the oracle knows what every atom means without parsing labels.

An Atom carries its formula text, the component name formulae gives it, its kind, the columns it
uses, and an *independent* pointwise definition (values / level per row) computed from the frame.
A case is JSON:  {"frame": {...}, "resp": text|None, "intercept": bool, "terms": [[atom texts]],
                  "group": [{"effect": [atom texts] | "1", "factor": [atom texts], "zero": bool}]}
"""
import re

import numpy as np
import pandas as pd

from . import frames


def dbl(v):  # user function made available through extra_namespace (deterministic, row-wise)
    return np.asarray(v, dtype=float) * 2.0


def shift1(v, by=1):
    return np.asarray(v, dtype=float) + by


def tag(v):  # user function producing a categorical (strings) from a string column, row-wise
    return pd.Series([str(a) + "_t" for a in v], index=getattr(v, "index", None), dtype="str")


def ser(v):  # user function returning a FRESH Series (default RangeIndex), whatever the index of its input
    return pd.Series(np.asarray(v, dtype=float) * 2.0)


NAMESPACE = {"dbl": dbl, "shift1": shift1, "tag": tag, "ser": ser, "pw": 1.5, "gain": 3.0}


def ensure_user_transform():
    """A user-registered stateful transform (formulae.transforms.register_stateful_transform):
    minmax(x) = (x - min) / (max - min) with min / max remembered from the first call."""
    from formulae.transforms import TRANSFORMS, register_stateful_transform

    if "minmax" in TRANSFORMS and "mshift" in TRANSFORMS:
        return

    class MinMax:
        __transform_name__ = "minmax"

        def __init__(self):
            self.lo = None
            self.hi = None

        def __call__(self, x):
            if self.lo is None:
                self.lo, self.hi = float(np.min(x)), float(np.max(x))
            return (np.asarray(x, dtype=float) - self.lo) / (self.hi - self.lo)

    register_stateful_transform(MinMax)

    class MeanShift:
        """mshift(x, by=..): x - mean(x at training) + by; the keyword matters on EVERY call."""
        __transform_name__ = "mshift"

        def __init__(self):
            self.mean = None
            self.params_set = False

        def __call__(self, x, by=0.0):
            if not self.params_set:
                self.mean = float(np.mean(x))
                self.params_set = True
            return np.asarray(x, dtype=float) - self.mean + np.asarray(by, dtype=float)

    register_stateful_transform(MeanShift)


class Atom:
    def __init__(self, text, kind, vars_, name=None, fn=None, width=1, stateful=False, pointwise=True,
                 coding="treatment", ref=None, col=None, levels_from=None, explicit_levels=None, level_map=None):
        self.text = text
        self.name = name or text
        self.kind = kind  # 'num' | 'cat'
        self.vars = list(vars_)
        self.fn = fn  # num: fn(train_df, df) -> (n,) or (n, k)
        self.width = width
        self.stateful = stateful
        self.pointwise = pointwise
        self.coding = coding
        self.ref = ref
        self.col = col  # cat: the frame column holding the level of each row
        self.explicit_levels = explicit_levels
        self.level_map = level_map

    # -- numeric ----------------------------------------------------------------------------
    def values(self, train, df=None):
        df = train if df is None else df
        return np.asarray(self.fn(train, df), dtype=float)

    # -- categorical --------------------------------------------------------------------------
    def levels(self, meta):
        if self.explicit_levels is not None:
            return list(self.explicit_levels)
        if self.level_map is not None:
            return sorted(self.level_map(v) for v in meta[self.col]["levels"])
        return list(meta[self.col]["levels"])

    def rowlevels(self, df):
        if self.level_map is not None:
            return [self.level_map(v) for v in df[self.col].tolist()]
        return df[self.col].tolist()

    def __repr__(self):
        return f"Atom({self.text})"


def _col(c):
    return lambda train, df: df[c].to_numpy(dtype=float)


def _mean(train, c):
    return float(np.mean(train[c].to_numpy(dtype=float)))


def _sd(train, c):
    return float(np.std(train[c].to_numpy(dtype=float)))


NUM_ATOMS = {
    "x": dict(vars_=["x"], fn=_col("x")),
    "z": dict(vars_=["z"], fn=_col("z")),
    "w": dict(vars_=["w"], fn=_col("w")),
    "cnt": dict(vars_=["cnt"], fn=_col("cnt")),
    "`col 1`": dict(vars_=["col 1"], fn=_col("col 1"), name="col 1"),
    "x\u00b2": dict(vars_=["x\u00b2"], fn=_col("x\u00b2")),
    "i8a": dict(vars_=["i8a"], fn=_col("i8a")),
    "i8b": dict(vars_=["i8b"], fn=_col("i8b")),
    "u8": dict(vars_=["u8"], fn=_col("u8")),
    "bl": dict(vars_=["bl"], fn=_col("bl")),
    "ni": dict(vars_=["ni"], fn=_col("ni")),
    "nf": dict(vars_=["nf"], fn=_col("nf")),
    "f32": dict(vars_=["f32"], fn=_col("f32")),
    "ser(x)": dict(vars_=["x"], fn=lambda t, d: d["x"].to_numpy(dtype=float) * 2.0),
    "I(center(x) * z)": dict(vars_=["x", "z"], stateful=True,
                             fn=lambda t, d: (d["x"].to_numpy(dtype=float) - _mean(t, "x")) * d["z"].to_numpy(dtype=float)),
    "{scale(z) + x}": dict(vars_=["x", "z"], stateful=True, name="I(scale(z) + x)",
                           fn=lambda t, d: (d["z"].to_numpy(dtype=float) - _mean(t, "z")) / _sd(t, "z") + d["x"].to_numpy(dtype=float)),
    "mshift(z, by=w)": dict(vars_=["z", "w"], stateful=True,
                            fn=lambda t, d: d["z"].to_numpy(dtype=float) - _mean(t, "z") + d["w"].to_numpy(dtype=float)),
    "mshift(x, by=gain)": dict(vars_=["x"], stateful=True, fn=lambda t, d: d["x"].to_numpy(dtype=float) - _mean(t, "x") + 3.0),
    "np.power(w, pw)": dict(vars_=["w"], fn=lambda t, d: d["w"].to_numpy(dtype=float) ** 1.5),
    "bs(x, df=4, lower_bound=-0.5, upper_bound=0.5)": dict(vars_=["x"], stateful=True, width=4, fn=None),
    "center(ni)": dict(vars_=["ni"], stateful=True, fn=lambda t, d: d["ni"].to_numpy(dtype=float) - _mean(t, "ni")),
    "scale(nf)": dict(vars_=["nf"], stateful=True,
                      fn=lambda t, d: (d["nf"].to_numpy(dtype=float) - _mean(t, "nf")) / _sd(t, "nf")),
    "np.log(w)": dict(vars_=["w"], fn=lambda t, d: np.log(d["w"].to_numpy(dtype=float))),
    "np.exp(x)": dict(vars_=["x"], fn=lambda t, d: np.exp(d["x"].to_numpy(dtype=float))),
    "I(x ** 2)": dict(vars_=["x"], fn=lambda t, d: d["x"].to_numpy(dtype=float) ** 2),
    "{x * 2}": dict(vars_=["x"], fn=lambda t, d: d["x"].to_numpy(dtype=float) * 2, name="I(x * 2)"),
    "I(x + z)": dict(vars_=["x", "z"], fn=lambda t, d: d["x"].to_numpy(dtype=float) + d["z"].to_numpy(dtype=float)),
    "I(x > 0)": dict(vars_=["x"], fn=lambda t, d: (d["x"].to_numpy(dtype=float) > 0).astype(float)),
    "dbl(x)": dict(vars_=["x"], fn=lambda t, d: d["x"].to_numpy(dtype=float) * 2),
    "shift1(z, by=3)": dict(vars_=["z"], fn=lambda t, d: d["z"].to_numpy(dtype=float) + 3),
    "shift1(z, by=w)": dict(vars_=["z", "w"], fn=lambda t, d: d["z"].to_numpy(dtype=float) + d["w"].to_numpy(dtype=float)),
    "np.log(np.exp(x))": dict(vars_=["x"], fn=lambda t, d: np.log(np.exp(d["x"].to_numpy(dtype=float)))),
    "dbl(shift1(`col 1`, by=cnt))": dict(vars_=["col 1", "cnt"], name="dbl(shift1(col 1, by=cnt))",
                                         fn=lambda t, d: 2 * (d["col 1"].to_numpy(dtype=float) + d["cnt"].to_numpy(dtype=float))),
    "np.power(w, 2)": dict(vars_=["w"], fn=lambda t, d: d["w"].to_numpy(dtype=float) ** 2),
    "I(`col 1` + 1)": dict(vars_=["col 1"], fn=lambda t, d: d["col 1"].to_numpy(dtype=float) + 1, name="I(col 1 + 1)"),
    # stateful transforms: parameters from the TRAINING frame
    "center(x)": dict(vars_=["x"], stateful=True, fn=lambda t, d: d["x"].to_numpy(dtype=float) - _mean(t, "x")),
    "scale(x)": dict(vars_=["x"], stateful=True,
                     fn=lambda t, d: (d["x"].to_numpy(dtype=float) - _mean(t, "x")) / _sd(t, "x")),
    "standardize(z)": dict(vars_=["z"], stateful=True,
                           fn=lambda t, d: (d["z"].to_numpy(dtype=float) - _mean(t, "z")) / _sd(t, "z")),
    "center(np.log(w))": dict(vars_=["w"], stateful=True,
                              fn=lambda t, d: np.log(d["w"].to_numpy(dtype=float)) - float(np.mean(np.log(t["w"].to_numpy(dtype=float))))),
    "I(center(x) ** 2)": dict(vars_=["x"], stateful=True,
                              fn=lambda t, d: (d["x"].to_numpy(dtype=float) - _mean(t, "x")) ** 2),
    "scale(center(z))": dict(vars_=["z"], stateful=True,
                             fn=lambda t, d: (d["z"].to_numpy(dtype=float) - _mean(t, "z")) / _sd(t, "z")),
    "binary(k)": dict(vars_=["k"], stateful=True,
                      fn=lambda t, d: (d["k"].to_numpy() == t["k"].to_numpy().min()).astype(float)),
    "B(cnt)": dict(vars_=["cnt"], stateful=True,
                   fn=lambda t, d: (d["cnt"].to_numpy() == t["cnt"].to_numpy().min()).astype(float)),
    "xz": dict(vars_=["xz"], fn=_col("xz")),
    "center(xz)": dict(vars_=["xz"], stateful=True, fn=lambda t, d: d["xz"].to_numpy(dtype=float) - _mean(t, "xz")),
    "scale(xz)": dict(vars_=["xz"], stateful=True,
                      fn=lambda t, d: (d["xz"].to_numpy(dtype=float) - _mean(t, "xz")) / _sd(t, "xz")),
    "minmax(z)": dict(vars_=["z"], stateful=True,
                      fn=lambda t, d: (d["z"].to_numpy(dtype=float) - t["z"].to_numpy(dtype=float).min())
                      / (t["z"].to_numpy(dtype=float).max() - t["z"].to_numpy(dtype=float).min())),
    # multi-column stateful transforms: no closed-form oracle here (C14 owns their values)
    "bs(x, df=4)": dict(vars_=["x"], stateful=True, width=4, fn=None),
    "bs(z, df=5, degree=2)": dict(vars_=["z"], stateful=True, width=5, fn=None),
    "bs(x, knots=kn_x)": dict(vars_=["x"], stateful=True, width=6, fn=None),
    "bs(x, knots=kn_x, degree=2, intercept=True)": dict(vars_=["x"], stateful=True, width=6, fn=None),
    "bs(z, df=4, lower_bound=-10, upper_bound=20)": dict(vars_=["z"], stateful=True, width=4, fn=None),
    "poly(x, 2)": dict(vars_=["x"], stateful=True, width=2, fn=None),
    "poly(x, 4)": dict(vars_=["x"], stateful=True, width=4, fn=None),
    "poly(z, 3, raw=True)": dict(vars_=["z"], stateful=True, width=3,
                                 fn=lambda t, d: np.column_stack([d["z"].to_numpy(dtype=float) ** k for k in (1, 2, 3)])),
}

CAT_VARS = ["s", "h", "o", "cu", "co", "g", "g2"]


def num_atom(text):
    spec = dict(NUM_ATOMS[text])
    return Atom(text, "num", **spec)


def cat_atom(text, meta):
    """Categorical atoms: plain variables, C(v), C(k), T(v, 'ref'), S(v), S(v, 'omit'),
    C(v, Sum), C(v, Treatment('ref')), `c:1` (backquoted), C(k, levels=lv_k)."""
    if text in CAT_VARS:
        return Atom(text, "cat", [text], col=text)
    if text == "`c:1`":
        return Atom(text, "cat", ["c:1"], col="c:1", name="c:1")
    m = re.fullmatch(r"I\((\w+)\)", text)
    if m:  # a plain call returning the (string) column: categorical produced by a call
        return Atom(text, "cat", [m.group(1)], col=m.group(1))
    m = re.fullmatch(r"tag\((\w+)\)", text)
    if m:  # user function returning new strings
        return Atom(text, "cat", [m.group(1)], col=m.group(1), level_map=lambda v: str(v) + "_t")
    m = re.fullmatch(r"C\((\w+)\)", text)
    if m:
        return Atom(text, "cat", [m.group(1)], col=m.group(1))
    m = re.fullmatch(r"C\((\w+), levels=(\w+)\)", text)
    if m:
        col = m.group(1)
        return Atom(text, "cat", [col], col=col, explicit_levels=list(reversed(meta[col]["levels"])))
    m = re.fullmatch(r"T\((\w+)\)", text)
    if m:
        return Atom(text, "cat", [m.group(1)], col=m.group(1))
    m = re.fullmatch(r"T\((\w+), (.+)\)", text)
    if m:
        return Atom(text, "cat", [m.group(1)], col=m.group(1), ref=_lit(m.group(2)))
    m = re.fullmatch(r"C\((\w+), Treatment\((.+)\)\)", text)
    if m:
        return Atom(text, "cat", [m.group(1)], col=m.group(1), ref=_lit(m.group(2)))
    m = re.fullmatch(r"C\((\w+), Treatment\)", text)
    if m:
        return Atom(text, "cat", [m.group(1)], col=m.group(1))
    m = re.fullmatch(r"S\((\w+)\)", text) or re.fullmatch(r"C\((\w+), Sum\)", text)
    if m:
        return Atom(text, "cat", [m.group(1)], col=m.group(1), coding="sum")
    m = re.fullmatch(r"S\((\w+), (.+)\)", text) or re.fullmatch(r"C\((\w+), Sum\((.+)\)\)", text)
    if m:
        return Atom(text, "cat", [m.group(1)], col=m.group(1), coding="sum", ref=_lit(m.group(2)))
    raise KeyError(text)


def _lit(t):
    t = t.strip()
    if t[0] in "'\"":
        return t[1:-1]
    return int(t)


def atom(text, meta):
    if text in NUM_ATOMS:
        return num_atom(text)
    return cat_atom(text, meta)


def quote(v):
    if isinstance(v, str):
        return "'" + v + "'" if "'" not in v else '"' + v + '"'
    return repr(v)


# ---------------------------------------------------------------------------------------------
# frames for cases
# ---------------------------------------------------------------------------------------------
def case_frame(fr):
    """fr: {"seed", "n", "hostile"} -> (df, meta) with the two hostile-named columns added."""
    rng = np.random.default_rng(fr["seed"])
    df, meta = frames.make_frame(rng, n=fr.get("n"), hostile=fr.get("hostile", False),
                                 min_rows=fr.get("min_rows", 1), max_rows=fr.get("max_rows", 40))
    n = len(df)
    df["col 1"] = rng.normal(size=n)
    meta["col 1"] = {"kind": "num"}
    # a numeric column whose mean is EXACTLY zero (symmetric integers): fitted parameters that happen to be falsy
    half = np.arange(1, n // 2 + 1, dtype=float)
    xz = np.concatenate([-half, half] + ([np.zeros(1)] if n % 2 else []))
    rng.shuffle(xz)
    df["xz"] = xz
    meta["xz"] = {"kind": "num"}
    # more numeric dtypes (derived, no draws): bool, nullable Int64 / Float64, float32
    df["bl"] = df["x"].to_numpy() > 0
    meta["bl"] = {"kind": "bool"}
    df["ni"] = pd.array(df["cnt"].to_numpy(), dtype="Int64")
    meta["ni"] = {"kind": "nint"}
    df["nf"] = pd.array(df["z"].to_numpy() * 0.5 - 1.0, dtype="Float64")
    meta["nf"] = {"kind": "nfloat"}
    df["f32"] = (df["w"].to_numpy() * 3.0).astype("float32")
    meta["f32"] = {"kind": "num"}
    # narrow integer dtypes whose products do not fit (int8 x int8, uint8 x int16)
    df["i8a"] = (df["cnt"].to_numpy() * 14 - 50).astype("int8")
    meta["i8a"] = {"kind": "int"}
    df["i8b"] = (df["cnt"].to_numpy() * 13 + 20).astype("int8")
    meta["i8b"] = {"kind": "int"}
    df["u8"] = (df["cnt"].to_numpy() * 25 + 40).astype("uint8")
    meta["u8"] = {"kind": "int"}
    # a column name that a Unicode normalisation would rewrite (SUPERSCRIPT TWO -> "x2"); derived, no draws
    df["x\u00b2"] = df["x"].to_numpy() ** 2 + 1.0
    meta["x\u00b2"] = {"kind": "num"}
    lv = ["p q", "r:s", "t"][: 2 + int(rng.integers(0, 2))]
    idx = frames._balanced(rng, lv, n)
    df["c:1"] = pd.Series([lv[i] for i in idx], dtype="str")
    meta["c:1"] = {"kind": "str", "levels": sorted(set(df["c:1"]))}
    return df, meta


def namespace(meta):
    ensure_user_transform()
    ns = dict(NAMESPACE)
    ns["kn_x"] = [-0.4, 0.0, 0.3]  # interior knots for x ~ N(0, 1); small frames may not cover them (counted)
    for col, mt in meta.items():
        if "levels" in mt:
            ns["lv_" + re.sub(r"\W", "_", col)] = list(reversed(mt["levels"]))
    return ns


# ---------------------------------------------------------------------------------------------
# formula text
# ---------------------------------------------------------------------------------------------
def term_text(t):
    return ":".join(t)


def group_text(g):
    eff = "1" if g["effect"] == "1" else term_text(g["effect"])
    fac = term_text(g["factor"])
    if g.get("zero") and eff != "1":
        return f"(0 + {eff} | {fac})"
    return f"({eff} | {fac})"


def op_expression(rng, atom_texts):
    """Operator-written right-hand side over the given atoms (each used once): + : * / and
    (sum)**2.  The expansion is obtained from the reference algebra, never from formulae."""
    items = list(atom_texts)
    rng.shuffle(items)
    nodes = [(a, True) for a in items]  # (text, is_atomic)
    while len(nodes) > 1:
        i = rng.randrange(len(nodes) - 1)
        (l, la), (r, ra) = nodes[i], nodes[i + 1]
        op = rng.choice(["+", "+", ":", "*", "*", "/"])
        lt = l if la else f"({l})"
        rt = r if ra else f"({r})"
        nodes[i : i + 2] = [(f"{lt} {op} {rt}", False)]
    text = nodes[0][0]
    if len(items) >= 2 and rng.random() < 0.25:
        text = "(" + " + ".join(items) + ")**2"
    return text


def expand_rhs(text):
    """[[component names]] of the common terms of `y ~ 0 + text` by the reference algebra."""
    from fmon.ref import algebra as A

    _resp, common, _group = A.expand("y ~ 0 + (" + text + ")", "ordered")
    return [list(t[1]) for t in common if t[0] == "t"]


def formula_text(case):
    if case.get("rhs_ops"):
        parts = [case["rhs_ops"]] + [group_text(g) for g in case.get("group", [])]
        rhs = " + ".join(parts)
        if not case.get("intercept", True):
            rhs = "0 + " + rhs
        lhs = case.get("resp")
        return (lhs + " ~ " + rhs) if lhs else rhs
    parts = [term_text(t) for t in case["terms"]] + [group_text(g) for g in case.get("group", [])]
    rhs = " + ".join(parts) if parts else "1"
    if not case.get("intercept", True):
        rhs = "0 + " + rhs if parts else "0"
    lhs = case.get("resp")
    return (lhs + " ~ " + rhs) if lhs else rhs


def group_names(case):
    """Names of the group-specific terms the formula expands to, in no particular order."""
    out = []
    for g in case.get("group", []):
        fac = term_text([_name(a) for a in g["factor"]])
        if g["effect"] == "1":
            out.append(f"1|{fac}")
        else:
            if not g.get("zero"):
                out.append(f"1|{fac}")
            out.append(f"{term_text([_name(a) for a in g['effect']])}|{fac}")
    return list(dict.fromkeys(out))


def _name(text):
    if text in NUM_ATOMS:
        return NUM_ATOMS[text].get("name", text)
    if text.startswith("`"):
        return text[1:-1]
    return text


# ---------------------------------------------------------------------------------------------
# random design cases
# ---------------------------------------------------------------------------------------------
PROFILES = {
    # what C04 judges: numeric variables / pointwise calls and treatment coded factors
    "plain": dict(
        num=["x", "z", "w", "cnt", "`col 1`", "x\u00b2", "bl", "ni", "nf", "f32", "i8a", "i8b", "u8", "i8a", "i8b", "ser(x)", "np.power(w, pw)", "np.log(w)", "I(x ** 2)", "{x * 2}", "dbl(x)", "I(x + z)",
             "shift1(z, by=w)", "np.log(np.exp(x))", "dbl(shift1(`col 1`, by=cnt))"],
        cat=["s", "h", "o", "cu", "co", "C(k)", "`c:1`", "C(s)", "T(h)", "I(s)", "tag(h)"],
        fac=["g", "g2", "s", "co", "C(k)", "cu"],
    ),
    "stateful": dict(
        num=["x", "z", "w", "x\u00b2", "bl", "ni", "nf", "f32", "center(ni)", "scale(nf)", "ser(x)", "I(center(x) * z)", "{scale(z) + x}", "mshift(z, by=w)",
             "mshift(x, by=gain)", "bs(x, df=4, lower_bound=-0.5, upper_bound=0.5)", "np.log(w)", "center(x)", "scale(x)", "standardize(z)", "center(np.log(w))",
             "I(center(x) ** 2)", "scale(center(z))", "bs(x, df=4)", "bs(z, df=5, degree=2)", "poly(x, 2)",
             "bs(x, knots=kn_x)", "bs(x, knots=kn_x, degree=2, intercept=True)", "binary(k)", "B(cnt)", "minmax(z)", "xz", "center(xz)", "scale(xz)",
             "bs(z, df=4, lower_bound=-10, upper_bound=20)", "poly(x, 4)",
             "poly(z, 3, raw=True)", "dbl(x)", "{x * 2}", "shift1(z, by=3)"],
        cat=["s", "h", "o", "cu", "co", "C(k)", "C(s)", "T(h)", "S(s)", "C(h, Sum)", "`c:1`", "I(s)", "tag(h)"],
        fac=["g", "g2", "s", "co", "C(k)", "cu"],
    ),
}


def random_case(rng, profile="plain", hostile=False, group_p=0.5, max_terms=4, min_rows=1, max_rows=40,
                with_refs=False, ops_p=0.35):
    """rng: random.Random.  Returns a case dict (JSON-able)."""
    P = PROFILES[profile]
    fr = {"seed": rng.randrange(2 ** 31), "hostile": hostile, "min_rows": min_rows, "max_rows": max_rows}
    df, meta = case_frame(fr)
    fr["n"] = len(df)
    cats = list(P["cat"])
    if with_refs:
        for v in ("s", "h", "g"):
            lv = meta[v]["levels"]
            cats.append(f"T({v}, {quote(rng.choice(lv))})")
            cats.append(f"S({v}, {quote(rng.choice(lv))})")
            cats.append(f"C({v}, Treatment({quote(rng.choice(lv))}))")
        cats.append("C(k, levels=lv_k)")
    nterms = rng.choice(list(range(0, max_terms + 1)))
    terms, seen = [], set()
    for _ in range(nterms):
        order = rng.choice([1, 1, 1, 2, 2, 3, 4])
        pool = P["num"] + cats + cats
        t = []
        used_vars = set()
        for _ in range(order):
            a = rng.choice(pool)
            at = atom(a, meta)
            # one atom per underlying variable inside a term (v:C(v) is degenerate by construction)
            if any(v in used_vars for v in at.vars) or a in t:
                continue
            used_vars.update(at.vars)
            t.append(a)
        key = frozenset(t)
        if t and key not in seen:
            seen.add(key)
            terms.append(t)
    group = []
    if rng.random() < group_p:
        for _ in range(rng.choice([1, 1, 2, 3])):
            fac = [rng.choice(P["fac"])]
            if rng.random() < 0.3:
                f2 = rng.choice(P["fac"])
                if atom(f2, meta).vars != atom(fac[0], meta).vars:
                    fac.append(f2)
            r = rng.random()
            if r < 0.3:
                eff = "1"
            elif r < 0.7:
                eff = [rng.choice(P["num"])]
            elif r < 0.9:
                eff = [rng.choice([c for c in cats if atom(c, meta).vars[0] not in [atom(f, meta).vars[0] for f in fac]] or ["h"])]
            else:
                eff = [rng.choice(P["num"]), rng.choice(["s", "h", "o"])]
                if atom(eff[1], meta).vars[0] in [atom(f, meta).vars[0] for f in fac]:
                    eff = eff[:1]
            g = {"effect": eff, "factor": fac, "zero": rng.random() < 0.3}
            if group_text(g) not in [group_text(q) for q in group]:
                group.append(g)
    case = {"frame": fr, "resp": rng.choice(["y", "y", "y", None]), "intercept": rng.random() < 0.75,
            "terms": terms, "group": group, "profile": profile}
    if ops_p and rng.random() < ops_p:
        # operator-written common part: atoms over distinct variables, expansion by the reference algebra
        chosen, used_vars = [], set()
        for a in rng.sample(P["num"] + cats, k=min(len(P["num"] + cats), 6)):
            at = atom(a, meta)
            if any(v in used_vars for v in at.vars):
                continue
            used_vars.update(at.vars)
            chosen.append(a)
            if len(chosen) == rng.choice([2, 2, 3, 3, 4]):
                break
        if len(chosen) >= 2:
            text = op_expression(rng, chosen)
            by_name = {_name(a): a for a in chosen}
            case["rhs_ops"] = text
            case["terms"] = [[by_name[nm] for nm in t] for t in expand_rhs(text)]
    if not terms and not group and not case["intercept"]:
        case["intercept"] = True
    return case


def run_design(case, na_action="drop"):
    """Build the design through the public (monitored) API.  Returns (dm, df, meta, text)."""
    import formulae

    df, meta = case_frame(case["frame"])
    text = formula_text(case)
    dm = formulae.design_matrices(text, df, na_action=na_action, extra_namespace=namespace(meta))
    return dm, df, meta, text
