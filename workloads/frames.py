"""Typed data-frame generator.  Every frame comes with `meta`: column -> dict(kind, levels).

kinds: num (float), pos (float in [0.5, 2]), int (small non-negative ints), str (StringDtype /
object strings), obj (object dtype strings), cat (unordered Categorical, categories declared in
non-sorted order), ocat (ordered Categorical, declared order), code (int codes, used via C()).
`levels` is the level order the documentation promises: sorted observed values for unordered
data, the declared order for ordered data.
"""
import itertools

import numpy as np
import pandas as pd

PLAIN_LEVELS = [["a", "b"], ["a", "b", "c"], ["b", "a", "d", "c"], ["u", "v"], ["p", "q", "r"],
                ["A", "a", "B"], ["x1", "x10", "x2"], ["lo", "mid", "hi", "top", "max"]]
HOSTILE_LEVELS = [["a:b", "a", "b"], ["l|m", "n"], ["[k]", "k", "k]"], ["a b", "a  b", "ab"],
                  ["", "e"], ["é", "e", "z"], ["1", "10", "2"], ["x[a]", "x", "a"], ["(p)", "p", "1|g"],
                  # MICRO SIGN / ANGSTROM SIGN (rewritten by Unicode normalisation), a backslash (no escapes in formulas)
                  ["\u00b5g", "mg", "\u212b"], ["a\\nb", "ab", "Z\u00fcrich"]]
ORDERED_DECL = [["lo", "mid", "hi"], ["z", "y", "x", "w"], ["b", "a"], ["s3", "s1", "s2"]]
CODE_SETS = [[1, 2], [3, 7, 10], [0, 1, 2, 3], [10, 2, 33], [-1, 5]]


def _balanced(rng, levels, n):
    """Every level at least once (when n allows), otherwise random; shuffled."""
    k = len(levels)
    idx = list(range(k)) * (n // k) if n >= k else []
    idx += list(rng.integers(0, k, size=n - len(idx)))
    idx = np.array(idx[:n], dtype=int)
    rng.shuffle(idx)
    return idx


def make_frame(rng, n=None, hostile=False, min_rows=1, max_rows=40, extra_unused=True):
    """rng: numpy Generator.  Returns (DataFrame, meta)."""
    n_draw = int(rng.integers(min_rows, max_rows + 1))  # always drawn: same stream with or without n
    n = n_draw if n is None else n
    pools = PLAIN_LEVELS + (HOSTILE_LEVELS if hostile else [])
    meta = {}
    cols = {}

    def pick(pool):
        return list(pool[int(rng.integers(0, len(pool)))])

    cols["y"] = rng.normal(size=n); meta["y"] = {"kind": "num"}
    cols["x"] = rng.normal(size=n); meta["x"] = {"kind": "num"}
    cols["z"] = rng.normal(loc=3.0, scale=2.0, size=n); meta["z"] = {"kind": "num"}
    cols["w"] = rng.uniform(0.5, 2.0, size=n); meta["w"] = {"kind": "pos"}
    cols["cnt"] = rng.integers(0, 9, size=n); meta["cnt"] = {"kind": "int"}
    for name in ("s", "h", "g", "g2"):
        lv = pick(pools)
        idx = _balanced(rng, lv, n)
        vals = [lv[i] for i in idx]
        cols[name] = pd.Series(vals, dtype="str")
        meta[name] = {"kind": "str", "levels": sorted(set(vals))}
    lv = pick(pools)
    idx = _balanced(rng, lv, n)
    vals = [lv[i] for i in idx]
    cols["o"] = pd.Series(vals, dtype=object); meta["o"] = {"kind": "obj", "levels": sorted(set(vals))}
    lv = pick(pools)
    idx = _balanced(rng, lv, n)
    vals = [lv[i] for i in idx]
    decl = list(lv)
    rng.shuffle(decl)
    cols["cu"] = pd.Categorical(vals, categories=decl, ordered=False)
    meta["cu"] = {"kind": "cat", "levels": sorted(set(vals))}
    lv = pick(ORDERED_DECL)
    idx = _balanced(rng, lv, n)
    vals = [lv[i] for i in idx]
    cols["co"] = pd.Categorical(vals, categories=lv, ordered=True)
    # an ordered categorical keeps every declared category, observed or not
    meta["co"] = {"kind": "ocat", "levels": list(lv)}
    lv = pick(CODE_SETS)
    idx = _balanced(rng, lv, n)
    vals = [lv[i] for i in idx]
    cols["k"] = np.array(vals, dtype=int); meta["k"] = {"kind": "code", "levels": sorted(set(vals))}
    # responses
    cols["yb"] = pd.Series([["no", "yes"][i] for i in _balanced(rng, [0, 1], n)], dtype="str")
    meta["yb"] = {"kind": "str", "levels": sorted(set(cols["yb"]))}
    cols["tr"] = rng.integers(3, 12, size=n); meta["tr"] = {"kind": "int"}
    cols["succ"] = np.minimum(rng.integers(0, 4, size=n), cols["tr"]); meta["succ"] = {"kind": "int"}
    if extra_unused:
        cols["unused_nan"] = np.full(n, np.nan); meta["unused_nan"] = {"kind": "num", "unused": True}
        cols["unused_obj"] = pd.Series([("t", i) for i in range(n)], dtype=object)
        meta["unused_obj"] = {"kind": "other", "unused": True}
    df = pd.DataFrame(cols)
    order = list(df.columns)
    if rng.random() < 0.5:
        rng.shuffle(order)
        df = df[order]
    return df, meta


def factorial_frame(rng, factors, reps=2, numerics=("x", "z"), kinds=None, extra_rows=0):
    """Replicated complete factorial: every combination of the levels occurs `reps` times
    (+ extra random rows); numerics are continuous (general position).  `factors`: name -> n levels.
    kinds: name -> 'str' | 'cat' | 'ocat' | 'code' | 'obj'."""
    kinds = kinds or {}
    names = list(factors)
    level_sets = {}
    for nm in names:
        k = factors[nm]
        if kinds.get(nm) == "code":
            # codes with different digit counts and a negative one: numeric order != text order
            level_sets[nm] = sorted([10, 2, 33, -7, 100, 5][:k])
        else:
            level_sets[nm] = [f"{nm}{i}" for i in range(k)]
    rows = list(itertools.product(*[range(factors[nm]) for nm in names])) * reps
    for _ in range(extra_rows):
        rows.append(tuple(int(rng.integers(0, factors[nm])) for nm in names))
    rows = np.array(rows, dtype=int).reshape(len(rows), len(names))
    perm = rng.permutation(len(rows))
    rows = rows[perm]
    n = len(rows)
    cols, meta = {}, {}
    for j, nm in enumerate(names):
        lv = level_sets[nm]
        vals = [lv[i] for i in rows[:, j]]
        kind = kinds.get(nm, "str")
        if kind == "str":
            cols[nm] = pd.Series(vals, dtype="str")
        elif kind == "obj":
            cols[nm] = pd.Series(vals, dtype=object)
        elif kind == "cat":
            cols[nm] = pd.Categorical(vals, categories=list(reversed(lv)), ordered=False)
        elif kind == "ocat":
            decl = list(reversed(lv))
            cols[nm] = pd.Categorical(vals, categories=decl, ordered=True)
            lv = decl
        elif kind == "code":
            cols[nm] = np.array(vals, dtype=int)
        meta[nm] = {"kind": kind, "levels": list(lv) if kind == "ocat" else sorted(set(vals))}
    for nm in numerics:
        cols[nm] = rng.normal(size=n) + (2.0 if nm == "z" else 0.0)
        meta[nm] = {"kind": "num"}
    cols["y"] = rng.normal(size=n)
    meta["y"] = {"kind": "num"}
    return pd.DataFrame(cols), meta


def frame_to_json(df):
    out = {"columns": [], "index": [str(i) for i in df.index]}
    for c in df.columns:
        s = df[c]
        ent = {"name": str(c), "dtype": str(s.dtype)}
        if isinstance(s.dtype, pd.CategoricalDtype):
            ent["categories"] = [str(v) for v in s.dtype.categories]
            ent["ordered"] = bool(s.dtype.ordered)
        ent["values"] = [None if (isinstance(v, float) and np.isnan(v)) else (v.item() if hasattr(v, "item") else v)
                         for v in s.tolist()]
        out["columns"].append(ent)
    return out


def frame_from_json(j):
    cols = {}
    for ent in j["columns"]:
        vals = ent["values"]
        dt = ent["dtype"]
        if "categories" in ent:
            cols[ent["name"]] = pd.Categorical(vals, categories=ent["categories"], ordered=ent["ordered"])
        elif dt.startswith("float"):
            cols[ent["name"]] = np.array([np.nan if v is None else v for v in vals], dtype=float)
        elif dt.startswith("int"):
            cols[ent["name"]] = np.array(vals, dtype=int)
        elif dt == "object":
            cols[ent["name"]] = pd.Series([tuple(v) if isinstance(v, list) else v for v in vals], dtype=object)
        else:
            cols[ent["name"]] = pd.Series(vals, dtype="str")
    return pd.DataFrame(cols)
