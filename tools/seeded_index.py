#!/venv/bin/python
"""Writes /verif/seeded/INDEX.md from the meta.json files."""
import json, os, glob
rows = []
for d in sorted(glob.glob("/verif/seeded/*/")):
    m = json.load(open(d + "meta.json"))
    notes = open(d + "notes.md").read().strip().splitlines() if os.path.exists(d + "notes.md") else [""]
    first = next((l.strip("# ").strip() for l in notes if l.strip()), "")[:110]
    rows.append((m["id"], m["breaks_property"], m["confirmed"]["status"], ", ".join(m["caught_by_quick_checks"]) or "-", first, (m.get("note") or "").replace("|", "/")[:160]))
with open("/verif/seeded/INDEX.md", "w") as f:
    f.write("# Seeded changes (independent sub-agents; property text + scratch worktree only)\n\n")
    f.write(f"{len(rows)} entries. `tools/eval_seeded.sh` re-evaluates all of them against the current tree.\n\n")
    f.write("| id | property | status | caught by (quick) | what it is | note |\n|---|---|---|---|---|---|\n")
    for r in rows:
        f.write("| " + " | ".join(r) + " |\n")
print(len(rows))
