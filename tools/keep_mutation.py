#!/venv/bin/python
"""tools/keep_mutation.py <src dir> <id> <property> <status> <checks that catch it, comma separated> [note]
Copies patch.diff / demo.py / notes.md to /verif/seeded/<id>/ and writes meta.json."""
import json, os, shutil, subprocess, sys
src, mid, prop, status, caught = sys.argv[1:6]
note = sys.argv[6] if len(sys.argv) > 6 else ""
dst = os.path.join("/verif/seeded", mid)
os.makedirs(dst, exist_ok=True)
for f in ("patch.diff", "demo.py", "notes.md"):
    if os.path.exists(os.path.join(src, f)):
        shutil.copy(os.path.join(src, f), os.path.join(dst, f))
notes = open(os.path.join(dst, "notes.md")).read() if os.path.exists(os.path.join(dst, "notes.md")) else ""
head = subprocess.run(["git", "-C", "/repo", "rev-parse", "--short", "HEAD"], capture_output=True, text=True).stdout.strip()
meta = {
    "id": mid,
    "breaks_property": prop,
    "origin": "independent sub-agent given only the property text and a scratch worktree",
    "needs_to_manifest": notes.strip()[:1500],
    "confirmed": {
        "repo_head": head,
        "what_i_ran": "tools/try_mutation.sh: fresh worktree of /repo HEAD + patch -> 135 baseline tests pass, demo.py exits non-zero; without the patch demo.py exits 0; then patch applied to /repo, quick checks run, patch undone",
        "status": status,
    },
    "caught_by_quick_checks": [c for c in caught.split(",") if c],
    "note": note,
}
json.dump(meta, open(os.path.join(dst, "meta.json"), "w"), indent=1)
print("kept", dst)
