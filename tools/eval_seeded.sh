#!/bin/bash
# re-evaluates every kept mutant against the quick check(s) of the property it breaks
# usage: tools/eval_seeded.sh [id-prefix]  (extra checks per mutant: seeded/<id>/also_checks, one id per line)
cd "$(dirname "$(readlink -f "${BASH_SOURCE[0]}")")/.."
for d in seeded/${1:-}*/; do
  id=$(basename $d)
  prop=$(/venv/bin/python -c "import json;print(json.load(open('$d/meta.json'))['breaks_property'])")
  extra=""; [ -f $d/also_checks ] && extra=$(cat $d/also_checks | tr '\n' ' ')
  echo "== $id ($prop $extra)"
  tools/try_mutation.sh $d $prop $extra 2>&1 | cut -c1-260
done
