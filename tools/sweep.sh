#!/bin/bash
# tools/sweep.sh "<seeds>" [tier] [props...]  : runs the checks for several VERIF_SEED values from fresh processes
cd "$(dirname "$(readlink -f "$0")")/.."
SEEDS=${1:-"0 1 2"}; TIER=${2:-quick}; shift 2 2>/dev/null
PROPS=${@:-$(/venv/bin/python -c "import json;print(' '.join(c['property_id'] for c in json.load(open('MANIFEST.json'))['checks']))")}
for s in $SEEDS; do for p in $PROPS; do
  OUT=$(VERIF_SEED=$s PYTHONHASHSEED=$s ./check $p --tier $TIER 2>&1); RC=$?
  echo "seed=$s $p exit=$RC $(echo "$OUT" | tail -1 | sed 's/.*cases=/cases=/' | cut -c1-110)"
  [ $RC -ne 0 ] && echo "$OUT" | grep -A1 -E "^VIOLATION|^INCONCLUSIVE" | head -6 | cut -c1-300
done; done
exit 0
