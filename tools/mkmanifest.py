#!/venv/bin/python
"""Regenerate MANIFEST.json from the table below (keeps it valid and consistent)."""
import json, os
VERIF = os.path.dirname(os.path.dirname(os.path.abspath(__file__)))

CHECKS = {
 "C01": ("Runtime monitor on model_description / Parser.parse: every string of up to 4 (quick) / 5 (thorough) tokens over a 25-token alphabet is executed (exhaustive) and judged against an independent table-driven reference grammar, plus generated sentences with random whitespace/parentheses and character-level mutants; in accepted formulas without a formula-level '-' / '0', renaming one variable occurrence to an unused name must change the model (no token is ignored); 'held' means no monitored execution violated the post-conditions.",
         "Trusts the reference grammar fmon/ref/grammar.py (documented precedence table); says nothing about strings outside the alphabet and the generators.",
         "runtime post-condition monitor with reference-grammar oracle + metamorphic shadow executions (whitespace, parentheses, full parenthesisation, single-variable renaming) + token-conservation trace"),
 "C02": ("Runtime post-condition on model_description: all operator trees up to 3 leaves over 6 atoms and 4 leaves over 3 atoms (5 leaves over 2 atoms in thorough), embedded in every documented context (response, intercept literals at the head, in the middle and at the end of the right-hand side and of the effect side of |, both sides of |, **n), plus random deeper trees, compared with an independent set-semantics reference evaluated on the reference AST.",
         "Trusts fmon/ref/algebra.py as the reading of the statement; a case counts as a violation only if it is wrong under both the ordered and the set identity of terms.",
         "runtime post-condition monitor with executable reference model (set algebra) over exhaustively enumerated small operator trees"),
 "C03": ("Runtime post-condition on design_matrices for driver-made designs on replicated complete-factorial frames: all 5910 ordered families of up to three terms over {f,g,h,x} with and without intercept (quick), plus all 2^15 families over four two-level factors and sampled atom variants (C/T/S/bs/poly/scale) with shuffled factor order (thorough); full column rank and equality of spans are decided by SVD / projection residuals against an all-indicator reference coding.",
         "Numerical decision: column-normalised matrices, smallest/largest singular value >= 1e-9 and projection residual <= 1e-6; frames are built by the driver so that the premise (all level combinations occur, numerics in general position) holds.",
         "runtime post-condition monitor with linear-algebra oracle (reference model space) over exhaustively enumerated term families"),
 "C04": ("Intrinsic runtime post-condition on every DesignMatrices built and every evaluate_new_data result: for each term the label -> expected column dictionary is rebuilt from the data frame alone (level indicators, products, group cell x effect) and every actual label/column pair, the label count and the product order are checked; driven by seeded random designs over all categorical dtype kinds, arities 1..4, group-specific terms and hostile level names, and by the repository's own tests (W0).",
         "Judged domain is the statement's (numeric variables / pointwise calls, treatment-coded factors); terms with Sum codings or multi-column transforms are counted as not judged; ambiguous candidate labels are skipped and counted.",
         "intrinsic runtime post-condition (label->column dictionary oracle built from the frame) on hooked design_matrices / evaluate_new_data"),
 "C05": ("Runtime post-condition on design_matrices for designs with a group part: (A) on any data, every row of every (e|g) block is zero outside the slot of its own group cell and the slot holds the effect columns (numeric effects = shadow design of `0 + e`, categorical effects = level indicators), one term per (effect term, grouping term) with the lme4 implicit intercept, cells sorted/lexicographic; (B) on fully crossed frames the stacked blocks of each grouping factor are linearly independent and span KhatriRao(indicators(g), model space of the effect expression). 29 effect expressions x 10 grouping expressions exhaustively, plus random combinations.",
         "(B) carries one known finding (group-coding-simplified), matched only where a clean re-implementation of the full coding rule disagrees with the simplified rule; all other inputs are judged. Numerical decisions as in C03.",
         "runtime post-condition monitor with block-structure oracle, shadow executions of the real code and linear-algebra span oracle"),
 "C06": ("Runtime post-condition on every evaluate_new_data of a common or group matrix: five shadow self-evaluations of the matrix's own training rows (random subset, permutation, repetition, single row, all rows of / lacking one level) must reproduce design_matrix[idx] with the same columns; plus fit-once trace on every stateful-transform instance and frozen-coding trace on every component. Driven by seeded random designs over stateful / nested / interacting transforms, C/T/S with references and levels=, ordered categoricals, operator-written formulas and group-specific terms, and by the repository's tests (advisory there).",
         "The oracle is the training matrix itself (no expected values); equality rtol 1e-10. Says nothing about transforms outside the generator's vocabulary.",
         "relational runtime post-condition (shadow self-evaluation on hooked evaluate_new_data) + fit-once / frozen-coding trace monitors"),
 "C07": ("History checker: sequences of build-design / evaluate-common / evaluate-group / set-config operations are executed against the live package and every recorded result digest is compared with the same single operation executed in fresh process-state (formulae purged from sys.modules and re-imported); after every operation all earlier results, all existing designs, the caller's frames and namespaces must be unchanged, and an in-place write to a returned matrix must change nothing else. All histories up to length 3 (thorough: 4, thinned) over a pool of 4 formulas x 3 frames, random histories of length 4..12 over 6 x 4, source-free fault injection through sys.monitoring LINE callbacks, replay of sampled histories in real subprocesses with other hash seeds.",
         "Fresh state is emulated inside the shard process (module purge); real subprocess replays are a sample. The pool is fixed; leaks that need other formulas or frames are out of reach.",
         "online checker over recorded operation histories against an executable stateless model (fresh-state execution), snapshot invariants, sys.monitoring failpoints"),
 "C08": ("Relational runtime check on design_matrices: for every driver-made design six shadow executions of the real code on transformed frames (row permutation with/without index reset, five kinds of index relabelling, column reorder, unused columns added incl. all-NaN/object/duplicated ones, unused columns removed) must give identical response/common/group matrices (row-permuted under permutation), labels, term order, slices, levels, and identical evaluate_new_data results on a fixed probe frame (fitted parameters seen through the boundary).",
         "rtol 1e-9 on values (reductions over permuted data reassociate), everything else exact; generated callables are deterministic and row-wise.",
         "relational runtime monitor: metamorphic shadow executions of the real code compared at the API boundary"),
 "C09": ("Relational runtime check on design_matrices(f, d, na_action): the set of used columns is computed from the formula text by the reference grammar; 'drop' must equal a shadow run on the complete rows (used columns only), 'error' must raise ValueError iff a row is incomplete in the used columns and otherwise equal 'drop', 'pass' must keep every row with NaN in exactly the columns of the terms that mention the missing numeric variable and the values of a filled-in shadow design elsewhere, any other policy must be refused. Random designs x 7 missingness patterns x policies.",
         "'pass' is judged only inside the statement's scope (plain variables / pointwise calls, missing numeric values); other 'pass' cases are executed and counted. Reference executions use the same library on other frames (relational oracle).",
         "relational runtime monitor: shadow executions on row-filtered / filled frames, used-variable set from the reference grammar"),
 "C10": ("Runtime post-conditions on evaluate_new_data for frames in which the driver plants an unseen level (predictor, effect variable, grouping variable, component of an interaction factor; str/object/Categorical/int-code columns) on a random row set, under all three modes with the mode changed between evaluations of the same design: error raises; warning/silent zero exactly the columns involving the variable on exactly those rows, leave every other entry equal to a shadow evaluation with a seen level, warn / stay silent; group terms get exactly one trailing block per term of an affected factor with the effect on exactly those rows, contiguous slices and exact factors_with_new_levels. An icontract invariant on Config plus an exhaustive driver over keys x values x assignment styles decides the configuration clause.",
         "Unseen levels are planted in one variable at a time; what the group part does in 'error' mode is not stated and not judged; ordered categoricals are not planted.",
         "runtime post-condition monitor with shadow execution (seen-level substitution) + icontract class invariant on Config with exhaustive configuration driver"),
 "C11": ("Boundary check with per-scope sentinels: the same name is planted in every subset of {data frame, caller locals, caller globals, extra_namespace} (x built-in or not) with a distinct value per scope and per stack level, for the roles argument / backquoted argument / keyword value (plain, compound expression, nested call) / callee / dotted callee (a.f, a.b.f) / None-valued binding, at env depths 0..3 through generated nested callers that live in different module dictionaries, through the monitored entry point and the raw function; the observed value identifies the winning scope, which must be the first defining scope in the documented order, from the frame env selects (locals AND globals), and an undefined name must raise.",
         "The configuration space is enumerated completely for the listed roles (exhaustive: true); other ways of naming things (attribute access on arguments, names inside subscripts) are outside the formula language.",
         "runtime boundary monitor over an exhaustively enumerated configuration space with identifying sentinels"),
 "C12": ("Boundary check against Python's own eval: generated call texts (operator trees over columns, int/float/str/True/False/None literals, nested recording calls with positional and keyword arguments, numpy ufuncs; + - * / **, unary signs, six comparisons; parentheses as Python needs them plus redundant ones; random whitespace) are evaluated as I(t), {t}, rec(t, k=..) through design_matrices and as Python expressions over the same names; columns, the argument logs of recording callables (values, keyword names, literal types, number of calls) and the term names (identical across whitespace variants, single spacing, tokens of the source, reads back through Python's ast as the same expression) are compared; pairs of texts with different Python ASTs must give two names, two terms and two correct columns.",
         "Python syntax outside the statement's list is not generated; whether redundant parentheses survive in names is not judged.",
         "runtime boundary monitor with Python eval as the executable reference model, recording callables, metamorphic whitespace variants"),
 "C13": ("icontract post-conditions on Treatment / Sum .code_with_intercept / .code_without_intercept (shape, rank with the constant, indicator / zero-sum structure, reference row zero / omitted level -1, labels) that fire on every contrast matrix any workload or repository test produces; an exhaustive driver over level counts 1..12 x every reference / omitted level x string / integer / falsy levels x fresh and re-used encoding objects; boundary checks through design_matrices that C / T / S honour contrast, reference / omit and every permutation of up to 5 levels passed as levels=; relational coding-swap check (column space unchanged) on complete-factorial frames.",
         "Exact 0/1/-1 matrices, so rank and equality are decided exactly; the swap check uses projection residuals (1e-7).",
         "icontract post-conditions on the real encoding methods + exhaustive configuration driver + relational shadow executions"),
 "C14": ("Intrinsic and trace contracts attached to the __call__ of the Center, Scale, BSpline and Polynomial classes (they fire on direct calls, through design_matrices and while the repository's tests run): mean zero / unit population sd on the first call, the same affine map on every later call (slope and offset recovered from the first call's input and output), spline column count, non-negativity and partition of unity inside the boundary knots, orthonormality / orthogonality to the constant / span of 1..x^d for poly, exact powers for raw=True; a driver over seeded vectors (ties, large offsets, small n, exactly zero mean, integers) x parameter combinations x several later inputs x several instances per process, and a list of invalid parameter combinations that must be refused.",
         "Numerical tolerances as stated in the evidence; spline contracts skip degenerate knot sequences (coinciding percentiles) and x outside the boundary knots.",
         "intrinsic + trace runtime contracts on the real transform classes (mathematical identities as oracle)"),
 "C15": ("Boundary checks on design_matrices(...).response for every response form (float / int column, call, str / object / unordered Categorical declared unsorted / ordered Categorical with an unobserved declared level, y[ident], y['quoted level'], prop / p / proportion with column or constant trials, none): values, shapes, level order, `levels` and `kind` are rebuilt from the frame alone; refused forms (a:b ~, a + b ~, a*b ~, (a|g) ~, 1 ~, 0 ~) must raise; relational check that the common and group matrices, slices and labels of one right-hand side are identical under every response form. Frames include single-row and single-level ones and hostile level names.",
         "Shapes follow the pinned layout (categorical and proportion responses 2-d, numeric and y[level] responses n entries).",
         "runtime boundary monitor with frame-derived pointwise oracle + relational response-swap shadows"),
 "C16": ("Boundary checks, at training time and on new frames built so that they lack the success level / smallest value, carry fractional values in integer-trained columns and other trials: binary / B indicator of the (training) success value and refusal of absent (also falsy) values; offset of a column / call / integer arithmetic / constant unchanged and recomputed from the new frame; prop / p / proportion columns, validation and prediction-time trials; I / {} identity; exact synonymy of the aliases (B/binary, p/prop/proportion, standardize/scale, T/C(.., Treatment), S/C(.., Sum)) at training and on new data.",
         "Frames and helper expressions come from a fixed vocabulary; offset(-1) (a unary expression) is executed, not judged.",
         "runtime boundary monitor with pointwise definitions as oracle + alias shadow executions"),
 "C17": ("Structural invariants checked on every DesignMatrices created and every object returned by evaluate_new_data (hooks on the real entry points, so they fire in the driver's workload and while the repository's tests run): slices tile the columns in term order, m[name] is that slice and unknown names are refused, as_dataframe / np.asarray / np.array / tuple unpacking / design_matrix agree, label counts and uniqueness, row alignment of response / common / group, str() and repr() succeed and contain the actual shape. The driver builds seeded random designs with every response form, single-level factors and NaN rows, then runs chains of 2..5 evaluate_new_data calls with and without unseen groups / levels and re-checks the original and all earlier results after every step.",
         "Label uniqueness is judged only on frames without hostile level names; the content of the extra block for unseen groups is C10's.",
         "structural invariants at hooks on the real API (invariant-at-a-hook), driven by operation chains"),
}
NOT_APPLICABLE = {}
PENDING = [f"C{i:02d}" for i in range(1, 18) if f"C{i:02d}" not in CHECKS]

def main():
    checks = []
    for pid, (text, note, tech) in sorted(CHECKS.items()):
        checks.append({
            "property_id": pid,
            "quick_cmd": f"./check {pid} --tier quick",
            "thorough_cmd": f"./check {pid} --tier thorough",
            "evidence_file": f"/verif/evidence/{pid}.json",
            "replay_cmd_template": f"./check {pid} --replay {{path}}",
            "engine": "fmon",
            "level_claimed": {"category": "exploration", "text": text, "design_ref": f"DESIGN.md section 3, {pid}"},
            "level_note": note,
            "technique": tech,
        })
    na = [{"property_id": p, "reason": r} for p, r in sorted(NOT_APPLICABLE.items())]
    na += [{"property_id": p, "reason": "check not built yet in this round (runtime monitoring applies; see DESIGN.md section 3)"} for p in PENDING]
    man = {
     "version": 1,
     "setup_cmd": "/venv/bin/python -m pip install -q --no-index --find-links /opt/veriftools/wheels --target /verif/.deps icontract deal",
     "hooks": {
      "guard": "FORMULAE_VERIF",
      "enable": "No source hooks: monitors attach to the live package by attribute replacement from /verif/fmon (FORMULAE_VERIF=1 is exported to every shard); /repo is imported from its working tree (editable install), so nothing is built.",
      "baseline_off_cmd": "cd /repo && /venv/bin/python -m pytest -ra -q -p no:cacheprovider --timeout=900 --continue-on-collection-errors",
      "source_commits": [],
      "add_only": True,
     },
     "engines": [{"name": "fmon", "path": "/verif/fmon", "serves_properties": sorted(CHECKS),
                  "kind_free_text": "runtime monitors (contracts, reference-model monitors, trace and history checkers) attached to the live formulae package; sharded workload drivers in /verif/props"}],
     "checks": checks,
     "not_applicable": na,
     "notes": "Exit codes of ./check: 0 held on what was observed (KNOWN-FINDING lines possible), 1 VIOLATION, 2 INCONCLUSIVE (deciding monitor observed nothing / shards lost). Fixes to /repo are listed as 'fixed:' in known_findings.txt.",
    }
    with open(os.path.join(VERIF, "MANIFEST.json"), "w") as f:
        json.dump(man, f, indent=1)
        f.write("\n")

if __name__ == "__main__":
    main()
