#!/venv/bin/python
"""Prompt for a sub-agent that seeds bugs in one code AREA against ANY of the properties."""
import json, sys
area, files, wt = sys.argv[1], sys.argv[2], sys.argv[3]
known = json.load(open(sys.argv[4])) if len(sys.argv) > 4 else {}
props = [json.loads(l) for l in open('/verif/properties.jsonl')]
plist = "\n".join(f"- {p['id']} {p['title']}: {p['statement']}" for p in props)
klist = "\n".join(x for v in known.values() for x in v)
print(f"""You are helping to evaluate a verification effort for the Python library `formulae` (bambinos/formulae: a pure-Python Wilkinson formula parser and term algebra that builds design matrices for mixed-effects models from pandas DataFrames).

You have your own scratch git worktree of the library at {wt} (a detached checkout; work ONLY inside this directory, never touch /repo or /verif, and do not read anything under /verif). Python is /venv/bin/python. IMPORTANT: the venv has `formulae` installed in editable mode pointing at another checkout, so ALWAYS run with PYTHONPATH={wt} (e.g. `cd {wt} && PYTHONPATH={wt} /venv/bin/python -m pytest -q -p no:cacheprovider`) and check with `PYTHONPATH={wt} /venv/bin/python -c "import formulae; print(formulae.__file__)"` that you import the worktree copy. There is no network. The test-suite has 137 tests; 135 pass and exactly two (tests/test_poly.py::test_basic and ::test_degree) fail already on the unchanged tree - ignore those two.

The library is expected to satisfy these semantic properties:
{plist}

YOUR TASK: produce FOUR different, independent, realistic changes (bugs) located in the code area "{area}" (files: {files}), each of which BREAKS AT LEAST ONE of the properties above (any of them - say which), while (a) the package still imports, (b) all 135 currently-passing tests still pass with the change applied, and (c) the change looks like something that could plausibly slip through code review: a refactor gone subtly wrong, an off-by-one, a wrong default, a misplaced condition, an unsound optimisation or cache, a "robustness fix" with a side effect, two cooperating edits that each look fine alone. Think like a maintainer doing ordinary work in this area (performance work, clean-up, supporting a new pandas / numpy version, adding a small feature or a friendlier error message) who makes a mistake - NOT like someone targeting one property. Prefer changes whose effect needs something SPECIFIC to manifest (an unusual input, dtype, index, level name, numeric edge case, a particular combination or order of terms, a multi-step sequence of calls, a configuration change) rather than ones that any ordinary use would expose at once. Do not make changes that only raise an obviously wrong exception on every call.

These changes are ALREADY KNOWN; do not repeat them or close variants of them:
{klist}

For each change k in 1..4 create the directory {wt}/mutations/AR_{area}_k/ containing:
  - patch.diff : output of `git diff` for ONLY that change (relative to the unchanged worktree HEAD), appliable with `git apply` from the worktree root;
  - demo.py    : a small standalone program that exits with status 0 on the UNCHANGED tree and with a NON-ZERO status (e.g. a failed assert with a message) when the change is applied - it demonstrates the property violation through the public API; it is run as `PYTHONPATH={wt} /venv/bin/python demo.py`;
  - notes.md   : first line `breaks: Cxx[, Cyy]`, then 5-10 lines: what the change is, which clause of which property it breaks, and what specific input / sequence is needed for it to show.
Verify each one yourself: with the patch applied the 135 tests still pass and demo.py fails; with the patch reverted demo.py passes. Work on one change at a time and ALWAYS restore the tree (`git checkout -- .` inside {wt}) before starting the next and at the very end, so that the worktree is left unchanged except for the untracked mutations/ directory. Finish by replying with a short list of the four changes (one line each, with the properties they break).""")
