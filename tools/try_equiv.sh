#!/bin/bash
# usage: tools/try_equiv.sh <dir with patch.diff> [props...]   (behaviour-preserving change: every check must exit 0)
VERIF_DIR="$(cd "$(dirname "$(readlink -f "${BASH_SOURCE[0]}")")/.." && pwd)"
set -u
MD=$(readlink -f "$1"); shift 1
WT=/tmp/wt/_equiv_$$
git -C /repo worktree add -q --detach $WT HEAD || exit 3
cd $WT
if ! git apply "$MD/patch.diff" 2>/dev/null; then echo "APPLY-FAILED on current HEAD"; cd /; git -C /repo worktree remove --force $WT; exit 3; fi
T=$(PYTHONPATH=$WT /venv/bin/python -m pytest -q -p no:cacheprovider --deselect tests/test_poly.py::test_basic --deselect tests/test_poly.py::test_degree 2>&1 | tail -1)
echo "tests-with-patch: $T"
cd "$VERIF_DIR"
PROPS=${@:-$(/venv/bin/python -c "import json;print(' '.join(c['property_id'] for c in json.load(open('MANIFEST.json'))['checks']))")}
for P in $PROPS; do
  OUT=$(FORMULAE_REPO=$WT PYTHONPATH=$WT VERIF_SEED=${SEED:-0} ./check $P --tier quick 2>&1); RC=$?
  if [ $RC -ne 0 ]; then echo "ALARM $P exit=$RC"; echo "$OUT" | grep -A1 -E "^VIOLATION|^INCONCLUSIVE" | head -6 | cut -c1-400; else echo "ok $P"; fi
done
cd /; git -C /repo worktree remove --force $WT
