#!/bin/bash
# usage: tools/try_mutation.sh <mutation dir with patch.diff demo.py> <prop> [<prop> ...]
# 1. confirms in a FRESH scratch worktree of /repo's current HEAD: the 135 tests pass with the patch,
#    demo.py fails with it and passes without it
# 2. applies the patch to /repo, runs the quick checks of the given properties, undoes it
set -u
MD=$(readlink -f "$1"); shift 1
WT=/tmp/wt/_verify_$$
git -C /repo worktree add -q --detach $WT HEAD || exit 3
cd $WT
if ! git apply "$MD/patch.diff" 2>/dev/null; then echo "APPLY-FAILED on current HEAD"; cd /; git -C /repo worktree remove --force $WT; exit 3; fi
T=$(PYTHONPATH=$WT /venv/bin/python -m pytest -q -p no:cacheprovider --deselect tests/test_poly.py::test_basic --deselect tests/test_poly.py::test_degree 2>&1 | tail -1)
(cd /tmp && PYTHONPATH=$WT timeout 300 /venv/bin/python "$MD/demo.py" >/dev/null 2>&1); D1=$?
git checkout -q -- .
(cd /tmp && PYTHONPATH=$WT timeout 300 /venv/bin/python "$MD/demo.py" >/dev/null 2>&1); D0=$?
cd /; git -C /repo worktree remove --force $WT
echo "tests-with-patch: $T | demo-with-patch exit=$D1 | demo-without exit=$D0"
cd /verif
git -C /repo apply "$MD/patch.diff" || { echo "APPLY-FAILED in /repo"; exit 3; }
for P in "$@"; do
  OUT=$(./check $P --tier ${TIER:-quick} 2>&1); RC=$?
  echo "check $P -> exit $RC : $(echo "$OUT" | grep -c '^VIOLATION') violation classes; first: $(echo "$OUT" | grep -A1 '^VIOLATION' | head -2 | tail -1 | cut -c1-220)"
done
git -C /repo checkout -- .
git -C /repo status --short | head -3
