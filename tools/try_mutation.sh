#!/bin/bash
# usage: tools/try_mutation.sh <mutation dir with patch.diff demo.py> <prop> [<prop> ...]
# 1. confirms in a FRESH scratch worktree of /repo's current HEAD: the 135 tests pass with the patch,
#    demo.py fails with it and passes without it
# 2. runs the quick checks of the given properties against the patched worktree (FORMULAE_REPO / PYTHONPATH
#    point the shards at it, so /repo itself and any background run using it are left alone)
#    INPLACE=1 applies the patch to /repo instead (git -C /repo apply ... checkout), the way the brief describes
VERIF_DIR="$(cd "$(dirname "$(readlink -f "${BASH_SOURCE[0]}")")/.." && pwd)"
set -u
MD=$(readlink -f "$1"); shift 1
WT=/tmp/wt/_verify_$$
git -C /repo worktree add -q --detach $WT HEAD || exit 3
cd $WT
if ! git apply "$MD/patch.diff" 2>/dev/null; then echo "APPLY-FAILED on current HEAD"; cd /; git -C /repo worktree remove --force $WT; exit 3; fi
git diff > /tmp/wt/_patch_$$.diff
git checkout -q -- .
(cd /tmp && PYTHONPATH=$WT timeout 300 /venv/bin/python "$MD/demo.py" >/dev/null 2>&1); D0=$?
git apply /tmp/wt/_patch_$$.diff
T=$(PYTHONPATH=$WT /venv/bin/python -m pytest -q -p no:cacheprovider --deselect tests/test_poly.py::test_basic --deselect tests/test_poly.py::test_degree 2>&1 | tail -1)
(cd /tmp && PYTHONPATH=$WT timeout 300 /venv/bin/python "$MD/demo.py" >/dev/null 2>&1); D1=$?
echo "tests-with-patch: $T | demo-with-patch exit=$D1 | demo-without exit=$D0"
cd "$VERIF_DIR"
if [ "${INPLACE:-0}" = "1" ]; then
  git -C /repo apply "$MD/patch.diff" || { echo "APPLY-FAILED in /repo"; exit 3; }
  RUN=""
else
  RUN="env FORMULAE_REPO=$WT PYTHONPATH=$WT"
fi
for P in "$@"; do
  OUT=$($RUN ./check $P --tier ${TIER:-quick} 2>&1); RC=$?
  echo "check $P -> exit $RC : $(echo "$OUT" | grep -c '^VIOLATION') violation classes; first: $(echo "$OUT" | grep -A1 '^VIOLATION' | head -2 | tail -1 | cut -c1-220)"
done
[ "${INPLACE:-0}" = "1" ] && git -C /repo checkout -- .
cd /; git -C /repo worktree remove --force $WT; rm -f /tmp/wt/_patch_$$.diff
git -C /repo status --short | head -3
