#!/bin/bash
# every behaviour-preserving control must leave every quick check silent
cd "$(dirname "$(readlink -f "${BASH_SOURCE[0]}")")/.."
for d in seeded_equiv/*/; do echo "== $(basename $d)"; tools/try_equiv.sh $d "$@" | grep -v "^ok" ; done
