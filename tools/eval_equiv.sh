#!/bin/bash
# every behaviour-preserving control must leave every quick check silent
cd /verif
for d in seeded_equiv/*/; do echo "== $(basename $d)"; tools/try_equiv.sh $d "$@" | grep -v "^ok" ; done
