#!/venv/bin/python
"""Print the prompt given to a mutation sub-agent for one property (only the property text)."""
import json, sys
pid = sys.argv[1]
wt = sys.argv[2]
# ROUND2: optional third argument = json file {property: [one-line descriptions of changes already known]}
known = []
if len(sys.argv) > 3:
    known = json.load(open(sys.argv[3])).get(pid, [])
for l in open('/verif/properties.jsonl'):
    p = json.loads(l)
    if p['id'] == pid:
        break
AVOID = ""
if known:
    AVOID = "The following changes are ALREADY KNOWN; do not repeat them or close variants of them - look for different mechanisms, different functions and different triggering conditions:\n" + "\n".join(known) + "\n\n"
print(f"""You are helping to evaluate a verification effort for the Python library `formulae` (bambinos/formulae: a pure-Python Wilkinson formula parser and term algebra that builds design matrices for mixed-effects models from pandas DataFrames).

You have your own scratch git worktree of the library at {wt} (a detached checkout; work ONLY inside this directory, never touch /repo or /verif, and do not read anything under /verif). Python is /venv/bin/python. IMPORTANT: the venv has `formulae` installed in editable mode pointing at another checkout, so ALWAYS run with PYTHONPATH={wt} (e.g. `cd {wt} && PYTHONPATH={wt} /venv/bin/python -m pytest -q -p no:cacheprovider`) and check with `PYTHONPATH={wt} /venv/bin/python -c "import formulae; print(formulae.__file__)"` that you import the worktree copy. There is no network. The test-suite has 137 tests; 135 pass and exactly two (tests/test_poly.py::test_basic and ::test_degree) fail already on the unchanged tree - ignore those two.

Here is a semantic property of the library that should always hold:

PROPERTY {p['id']}: {p['title']}
{p['statement']}
(Quantified: {p['quantifier']['text']})
Code anchors: {', '.join(p['anchors']['files'])}

YOUR TASK: produce THREE different, independent, realistic changes (bugs) to the library source under {wt}/formulae, each of which BREAKS this property, while (a) the package still imports, (b) all 135 currently-passing tests still pass with the change applied, and (c) the change looks like something that could plausibly slip through code review (a refactor gone subtly wrong, an off-by-one, a wrong default, a misplaced condition, an optimisation or cache that is unsound, two cooperating edits that each look fine alone, ...). Prefer changes that need something SPECIFIC to manifest - an unusual input, a particular combination or order of terms / levels / dtypes, a multi-step sequence of calls, a particular configuration - rather than ones that any ordinary use would expose at once. Do not make changes that only raise an obviously wrong exception on every call. Make the three changes different in mechanism and located in different functions where possible.

{AVOID}For each change k in 1..3 create the directory {wt}/mutations/{pid}_k/ containing:
  - patch.diff : output of `git diff` for ONLY that change (relative to the unchanged worktree HEAD), appliable with `git apply` from the worktree root;
  - demo.py    : a small standalone program that exits with status 0 on the UNCHANGED tree and with a NON-ZERO status (e.g. a failed assert with a message) when the change is applied - it demonstrates the property violation through the public API (formulae.design_matrices, formulae.model_description, .evaluate_new_data, formulae.config ...); it is run as `PYTHONPATH={wt} /venv/bin/python demo.py`;
  - notes.md   : 5-10 lines: what the change is, which clause of the property it breaks, and what specific input / sequence is needed for it to show.
Verify each one yourself: with the patch applied the 135 tests still pass and demo.py fails; with the patch reverted demo.py passes. Work on one change at a time and ALWAYS restore the tree (`git checkout -- .` inside {wt}) before starting the next and at the very end, so that the worktree is left unchanged except for the untracked mutations/ directory. Finish by replying with a short list of the three changes (one line each).""")
