"""C13 - contrast codings are valid, honour their options, and are interchangeable.

Deciding monitors:
  [intrinsic, icontract post-conditions on Treatment / Sum .code_with_intercept / .code_without_intercept:
   fire on EVERY contrast matrix any workload produces]
    treatment-reduced / treatment-full / sum-reduced / sum-full
  [boundary, design_matrices]
    options-honoured    C / T / S honour contrast, reference / omit and levels (levels fix the order,
                        the first level is the default reference, the last the default omitted level),
                        an unknown reference is refused
  [relational]
    coding-swap         replacing the coding of one factor leaves the column space of the design unchanged
"""
import itertools
import random

import numpy as np
import pandas as pd

from fmon import core, attach
from fmon.ref import space
from workloads import frames

PROP = "C13"
DECIDING = ["treatment-reduced", "treatment-full", "sum-reduced", "sum-full", "options-honoured", "coding-swap"]


def spec(tier):
    return {
        "level": "exploration",
        "deciding": DECIDING,
        "timeout": 900 if tier == "quick" else 5400,
        "exhaustive": True,
        "w0": True,
        "rule": (
            "exhaustive: level counts 1..12 x every reference / omitted level (+ default) x string and integer "
            "levels (incl. the falsy levels 0 and '') x fresh and re-used encoding objects, through direct calls; all "
            "permutations of 2..5 levels passed as levels= to C / T / S with every reference / omit choice through "
            "design_matrices (str, int-code and ordered-Categorical columns); coding swaps among g, C(g), T(g), "
            "T(g, r), S(g), S(g, o), C(g, Sum), C(g, Treatment(r)), C(g, levels=..) in seeded designs on complete-factorial frames. "
            "The intrinsic contracts also fire on every contrast matrix built while the repository's tests run (W0). "
            "distinct = distinct (levels, coding, option) configurations; non-trivial = at least two levels."
        ),
        "assumptions": ["rank decided by SVD on column-normalised matrices (exact 0/1/-1 matrices)"],
        "classify": lambda v: v.get("key"),
    }


# ---------------------------------------------------------------------------------------------
# intrinsic contracts (icontract): record and return True
# ---------------------------------------------------------------------------------------------
def _viol(name, self, levels, detail):
    core.mon().violation(name, detail, case={"encoding": type(self).__name__, "option": repr(getattr(self, "reference", getattr(self, "omit", None))),
                                             "levels": [repr(l) for l in levels]}, key=name + ":" + detail.split(":")[0])


def treatment_reduced_ok(self, levels, result):
    m = core.mon()
    m.ev("treatment-reduced")
    n = len(levels)
    M, labels = np.asarray(result.matrix), list(result.labels)
    ref = levels[0] if self.reference is None else self.reference
    if M.shape != (n, n - 1) or len(labels) != n - 1:
        _viol("treatment-reduced", self, levels, f"shape: {M.shape} with {len(labels)} labels for {n} levels")
        return True
    if n and space.rank(np.column_stack([np.ones(n), M])) != n:
        _viol("treatment-reduced", self, levels, "rank: [1 | M] is rank deficient")
    others = [l for l in levels if l != ref] if ref in levels else None
    if others is None:
        return True
    if labels != [str(l) for l in others]:
        _viol("treatment-reduced", self, levels, f"labels: {labels} are not the non-reference levels {others} in order")
    if np.any(M[levels.index(ref)] != 0):
        _viol("treatment-reduced", self, levels, f"reference: row of the reference level {ref!r} is not zero")
    for j, l in enumerate(others):
        want = np.zeros(n)
        want[levels.index(l)] = 1
        if not np.array_equal(M[:, j], want):
            _viol("treatment-reduced", self, levels, f"indicator: column {j} is not the indicator of level {l!r}")
            break
    return True


def treatment_full_ok(self, levels, result):
    m = core.mon()
    m.ev("treatment-full")
    n = len(levels)
    M, labels = np.asarray(result.matrix), list(result.labels)
    if M.shape != (n, n) or not np.array_equal(M, np.eye(n)) or labels != [str(l) for l in levels]:
        _viol("treatment-full", self, levels, f"indicator: full coding is not one indicator per level in order (labels {labels})")
    return True


def sum_reduced_ok(self, levels, result):
    m = core.mon()
    m.ev("sum-reduced")
    n = len(levels)
    M, labels = np.asarray(result.matrix), list(result.labels)
    omit = levels[-1] if self.omit is None else self.omit
    if M.shape != (n, n - 1) or len(labels) != n - 1:
        _viol("sum-reduced", self, levels, f"shape: {M.shape} with {len(labels)} labels for {n} levels")
        return True
    if n and space.rank(np.column_stack([np.ones(n), M])) != n:
        _viol("sum-reduced", self, levels, "rank: [1 | M] is rank deficient")
    if n > 1 and np.any(M.sum(axis=0) != 0):
        _viol("sum-reduced", self, levels, "zero-sum: columns do not add up to zero over the levels")
    if omit in levels:
        others = [l for l in levels if l != omit]
        if n > 1 and np.any(M[levels.index(omit)] != -1):
            _viol("sum-reduced", self, levels, f"omitted: level {omit!r} is not coded -1 in every column")
        if labels != [str(l) for l in others]:
            _viol("sum-reduced", self, levels, f"labels: {labels} are not the kept levels {others} in order")
        for j, l in enumerate(others):
            if M[levels.index(l), j] != 1 or np.abs(M[:, j]).sum() != 2:
                _viol("sum-reduced", self, levels, f"indicator: column {j} is not +1 on level {l!r} and -1 on the omitted level")
                break
    return True


def sum_full_ok(self, levels, result):
    m = core.mon()
    m.ev("sum-full")
    n = len(levels)
    M, labels = np.asarray(result.matrix), list(result.labels)
    if M.shape != (n, n) or len(labels) != n or (n and space.rank(M) != n):
        _viol("sum-full", self, levels, f"span: full coding {M.shape} with {len(labels)} labels does not span the {n} indicators")
        return True
    # the full coding is the constant followed by the reduced coding: its labels name those columns
    omit = levels[-1] if self.omit is None else self.omit
    if omit in levels and n:
        kept = [l for l in levels if l != omit]
        if np.any(M[:, 0] != 1) or labels[1:] != [str(l) for l in kept]:
            _viol("sum-full", self, levels, f"labels: {labels} do not name the columns (constant, then the kept levels {kept})")
        else:
            for j, l in enumerate(kept):
                if M[levels.index(l), j + 1] != 1 or M[levels.index(omit), j + 1] != -1 or np.abs(M[:, j + 1]).sum() != 2:
                    _viol("sum-full", self, levels, f"indicator: column {j + 1} is not +1 on level {l!r} and -1 on the omitted level")
                    break
    return True


_DONE = {"installed": False}


def install_contracts(m):
    if _DONE["installed"]:
        return
    import icontract
    from formulae import categorical as CAT

    class PostBroken(Exception):
        pass

    for cls, full, red in ((CAT.Treatment, treatment_full_ok, treatment_reduced_ok), (CAT.Sum, sum_full_ok, sum_reduced_ok)):
        cls.code_with_intercept = icontract.ensure(full, error=PostBroken)(cls.code_with_intercept)
        cls.code_without_intercept = icontract.ensure(red, error=PostBroken)(cls.code_without_intercept)
    _DONE["installed"] = True


def register_hooks(m, foreign=False):
    install_contracts(m)


# ---------------------------------------------------------------------------------------------
# drivers
# ---------------------------------------------------------------------------------------------
def level_sets(n):
    yield [f"l{i}" for i in range(n)]
    yield list(range(n - 1, -1, -1))  # ints, 0 is last
    if n >= 2:
        yield ["b", "", "a", "c", "d", "e", "f", "g", "h", "i", "j", "k"][:n]  # the empty string is a level


def direct_driver(m, i, nshards, tier):
    from formulae.categorical import Treatment, Sum

    k = 0
    for n in range(1, 13):
        for levels in level_sets(n):
            for opt in [None] + list(levels):
                k += 1
                if k % nshards != i:
                    continue
                m.cases += 1
                if n >= 2:
                    m.distinct_count_only += 1
                m.current_case = {"levels": [repr(l) for l in levels], "option": repr(opt)}
                for enc in (Treatment(opt), Sum(opt)):
                    enc.code_with_intercept(list(levels))
                    enc.code_without_intercept(list(levels))
                    # the same encoding object coding ANOTHER list of levels afterwards
                    other = list(levels[::-1]) + ["extra"]
                    if opt is None or opt in other:
                        enc.code_without_intercept(other)
                        enc.code_with_intercept(other)
                        enc.code_without_intercept(list(levels))
    m.cls("direct-driver")
    if i == 0:
        # unknown reference / omitted level is refused
        for enc in (Treatment("nope"), Sum("nope")):
            m.ev("options-honoured")
            try:
                enc.code_without_intercept(["a", "b"])
                m.violation("options-honoured", f"{type(enc).__name__}('nope') accepted for levels ['a', 'b']", key="unknown-reference")
            except Exception:
                pass


def design_driver(m, i, nshards, tier):
    import formulae

    rng = np.random.default_rng(13)
    k = 0
    maxn = 4 if tier == "quick" else 5
    for n in range(2, maxn + 1):
        base = [f"v{j}" for j in range(n)]
        for perm in itertools.permutations(base):
            k += 1
            if k % nshards != i:
                continue
            order = list(perm)  # (not called `lv`: caller locals shadow extra_namespace in formulas)
            nrow = 3 * n
            vals = [base[j % n] for j in rng.permutation(nrow)]
            codes = {v: 10 * (base.index(v) + 1) for v in base}
            df = pd.DataFrame({"y": rng.normal(size=nrow), "g": pd.Series(vals, dtype="str"),
                               "k": np.array([codes[v] for v in vals], dtype=int),
                               "kk": np.array([base.index(v) + 1 for v in vals], dtype=int),
                               "co": pd.Categorical(vals, categories=sorted(base, reverse=True), ordered=True)})
            for col, levels in (("g", order), ("k", [codes[v] for v in order]), ("co", order), ("kk", [base.index(v) + 1 for v in order])):
                ns = {"lv": levels}
                rows = np.asarray(df[col].tolist(), dtype=object)
                opts = [None, levels[0], levels[-1], levels[len(levels) // 2]]
                for fn in ("C", "T", "S"):
                    for opt in opts:
                        if fn == "C" and opt is not None:
                            texts = [(f"C({col}, Treatment({opt!r}), levels=lv)", "T"), (f"C({col}, Sum({opt!r}), lv)", "S"),
                                     # a box inside a box: the inner one states the levels, the outer one the contrast
                                     (f"C(C({col}, levels=lv), Treatment({opt!r}))", "T"), (f"C(C({col}, levels=lv), Sum({opt!r}))", "S")]
                        elif fn == "C":
                            texts = [(f"C({col}, levels=lv)", "T"), (f"C({col}, Sum, levels=lv)", "S"), (f"C({col}, Treatment, lv)", "T"),
                                     (f"C(C({col}, levels=lv), Sum)", "S"), (f"C(C({col}, levels=lv))", "T")]
                        elif fn == "T":
                            texts = [(f"T({col}, {opt!r}, lv)" if opt is not None else f"T({col}, levels=lv)", "T")]
                        else:
                            texts = [(f"S({col}, omit={opt!r}, levels=lv)" if opt is not None else f"S({col}, levels=lv)", "S")]
                        for text, kind in texts:
                            case = {"formula": "y ~ " + text, "levels": [repr(l) for l in levels], "column": col, "option": repr(opt)}
                            m.case(case, canon=[text, case["levels"]], nontrivial=True)
                            m.ev("options-honoured")
                            try:
                                dm = formulae.design_matrices("y ~ " + text, df, extra_namespace=ns)
                            except Exception as e:
                                m.violation("options-honoured", f"{text} with lv={levels}: {type(e).__name__}: {e}", case=case, key="raises")
                                continue
                            term = dm.common.terms[text]
                            X = np.asarray(dm.common[text], dtype=float)
                            if kind == "T":
                                ref = levels[0] if opt is None else opt
                                kept = [l for l in levels if l != ref]
                                want = np.column_stack([(rows == l).astype(float) for l in kept]) if kept else np.zeros((nrow, 0))
                            else:
                                om = levels[-1] if opt is None else opt
                                kept = [l for l in levels if l != om]
                                want = np.column_stack([(rows == l).astype(float) - (rows == om).astype(float) for l in kept])
                            labels = [f"{text}[{l}]" for l in kept]
                            # the same call in a full-rank position: all levels, in the order given by levels=
                            m.ev("options-honoured")
                            try:
                                dm0 = formulae.design_matrices("y ~ 0 + " + text, df, extra_namespace=ns)
                                X0 = np.asarray(dm0.common[text], dtype=float)
                                if kind == "T":
                                    want0 = np.column_stack([(rows == l).astype(float) for l in levels])
                                    lab0 = [f"{text}[{l}]" for l in levels]
                                else:
                                    want0 = np.column_stack([np.ones(nrow), want])
                                    lab0 = [f"{text}[mean]"] + labels
                                if X0.shape != want0.shape or not np.array_equal(X0, want0) or list(dm0.common.terms[text].labels) != lab0:
                                    m.violation("options-honoured", f"0 + {text} with lv={levels}: full-rank columns / labels do not follow the "
                                                f"given level order (labels {dm0.common.terms[text].labels})", case={**case, "formula": "y ~ 0 + " + text},
                                                key="full-rank:" + fn)
                            except Exception as e:
                                m.violation("options-honoured", f"0 + {text}: {type(e).__name__}: {e}", case=case, key="raises")
                            if X.shape != want.shape or not np.array_equal(X, want):
                                m.violation("options-honoured", f"{text} with lv={levels}: columns do not follow the given level order / "
                                            f"reference (expected kept levels {kept})", case=case, key="columns:" + fn)
                            elif list(term.labels) != labels:
                                m.violation("options-honoured", f"{text} with lv={levels}: labels {term.labels} vs {labels}", case=case, key="labels:" + fn)
                # levels= that do not cover the data: refused, or - if accepted - every column is still the indicator
                # of the level in its label (a value outside levels= is never counted as one of the listed levels)
                extra = 990 if col in ("k", "kk") else "zz-extra"
                for sub in (levels[:-1], levels[1:], levels + [extra], [extra] + levels):
                    if not sub:
                        continue
                    sub, mine = list(sub), list(sub)
                    for text in (f"C({col}, levels=lv)", f"T({col}, levels=lv)", f"C({col}, Treatment, lv)"):
                        case = {"formula": "y ~ 0 + " + text, "levels": [repr(l) for l in sub], "column": col, "option": "levels-not-covering"}
                        m.case(case, canon=[text, case["levels"], "partial"], nontrivial=True)
                        m.ev("options-honoured")
                        try:
                            dmp = formulae.design_matrices("y ~ 0 + " + text, df, extra_namespace={"lv": sub})
                        except Exception:
                            m.cls("levels-not-covering:refused")
                            if sub != mine:
                                m.violation("options-honoured", f"0 + {text}: the caller's levels list {mine} was changed in place to {sub}",
                                            case=case, key="levels-list-mutated")
                                sub[:] = mine
                            continue
                        if sub != mine:
                            m.violation("options-honoured", f"0 + {text}: the caller's levels list {mine} was changed in place to {sub}",
                                        case=case, key="levels-list-mutated")
                            sub[:] = mine
                        Xp = np.asarray(dmp.common[text], dtype=float)
                        wantp = np.column_stack([(rows == l).astype(float) for l in sub])
                        if extra in sub and Xp.shape[1] == len(sub) - 1:
                            # a listed level that never occurs may get a column of zeros or no column at all
                            wantp = np.column_stack([(rows == l).astype(float) for l in sub if l != extra])
                        if Xp.shape != wantp.shape or not np.array_equal(Xp, wantp):
                            m.violation("options-honoured", f"0 + {text} with lv={sub} on data with levels {levels}: accepted, and the columns "
                                        "are not the indicators of the listed levels", case=case, key="levels-not-covering-data")
                # unknown reference refused
                m.ev("options-honoured")
                try:
                    formulae.design_matrices(f"y ~ T({col}, 'not-a-level')", df)
                    m.violation("options-honoured", f"T({col}, 'not-a-level') accepted", key="unknown-reference")
                except Exception:
                    pass
    # an object column mixing Python ints and floats: levels sort as numbers, whatever their type
    if i == 1 % nshards:
        mixed = [1, 2.5, 3, 10, 0.5, 7]
        for nlev in (3, 4, 6):
            lv_sorted = sorted(mixed[:nlev])
            vals = [mixed[j % nlev] for j in rng.permutation(3 * nlev)]
            dfm = pd.DataFrame({"y": rng.normal(size=len(vals)), "mx": pd.Series(vals, dtype=object)})
            rows = np.asarray(vals, dtype=object)
            for text, kept, minus in ((f"C(mx)", lv_sorted[1:], None), ("0 + C(mx)", lv_sorted, None), ("S(mx)", lv_sorted[:-1], lv_sorted[-1]),
                                      (f"T(mx, {lv_sorted[1]!r})", [l for l in lv_sorted if l != lv_sorted[1]], None)):
                case = {"formula": "y ~ " + text, "levels": [repr(l) for l in lv_sorted], "column": "mx", "option": "mixed-numbers"}
                m.case(case, canon=[text, case["levels"], "mixed"], nontrivial=True)
                m.ev("options-honoured")
                try:
                    dmm = formulae.design_matrices("y ~ " + text, dfm)
                    name = text.replace("0 + ", "")
                    X = np.asarray(dmm.common[name], dtype=float)
                    want = np.column_stack([(rows == l).astype(float) - ((rows == minus).astype(float) if minus is not None else 0.0) for l in kept])
                    labels = [f"{name}[{l}]" for l in kept]
                    if X.shape != want.shape or not np.array_equal(X, want) or list(dmm.common.terms[name].labels) != labels:
                        m.violation("options-honoured", f"{text} on an object column holding {lv_sorted}: levels are not in numeric order "
                                    f"(labels {dmm.common.terms[name].labels})", case=case, key="mixed-number-levels")
                except Exception as e:
                    m.violation("options-honoured", f"{text} on an object column holding {lv_sorted}: {type(e).__name__}: {e}", case=case, key="raises")
    # levels that are dates (datetime64[ns]), and a call that returns a bare ordered pd.Categorical with an unused category
    if i == 2 % nshards:
        dates = pd.to_datetime(["2020-03-01", "2019-05-05", "2020-01-01", "2021-12-31"])
        for nlev, unit in ((2, "ns"), (3, "us"), (4, "ns"), (3, "s")):
            lv_sorted = sorted(dates[:nlev])
            vals = [dates[j % nlev] for j in rng.permutation(3 * nlev)]
            dfd = pd.DataFrame({"y": rng.normal(size=len(vals)), "x": rng.normal(size=len(vals)),
                                "dt": pd.Series(vals).astype(f"datetime64[{unit}]")})
            rows = dfd["dt"]
            for text, kept in (("C(dt)", lv_sorted[1:]), ("0 + C(dt)", lv_sorted), ("x + C(dt):x", lv_sorted[1:])):
                case = {"formula": "y ~ " + text, "levels": [str(l) for l in lv_sorted], "column": "dt", "option": "dates"}
                m.case(case, canon=[text, case["levels"], "dates"], nontrivial=True)
                m.ev("options-honoured")
                try:
                    dmd = formulae.design_matrices("y ~ " + text, dfd)
                    name = [t for t in dmd.common.terms if "C(dt)" in t][0]
                    X = np.asarray(dmd.common[name], dtype=float)
                    mult = dfd["x"].to_numpy() if ":x" in name else 1.0
                    want = np.column_stack([(rows == l).to_numpy().astype(float) * mult for l in kept])
                    if X.shape != want.shape or not np.allclose(X, want):
                        m.violation("options-honoured", f"{text} on a datetime64 column with {nlev} dates: columns are not the indicators of the "
                                    f"dates in chronological order (labels {dmd.common.terms[name].labels})", case=case, key="date-levels")
                except Exception as e:
                    m.violation("options-honoured", f"{text} on a datetime64 column: {type(e).__name__}: {e}", case=case, key="raises")

        decl = ["mid", "lo", "hi", "top"]
        vals_o = [decl[j % 4] for j in rng.permutation(12)]
        dfc = pd.DataFrame({"y": rng.normal(size=12), "oc": pd.Categorical(vals_o, categories=decl, ordered=True)})
        rows_o = np.asarray(vals_o, dtype=object)
        for text, kept in (("C(oc)", decl[1:]), ("0 + C(oc)", decl), ("oc", decl[1:]), ("T(oc)", decl[1:]), ("C(oc, Treatment('lo'))", [l for l in decl if l != "lo"])):
            case = {"formula": "y ~ " + text, "levels": decl, "column": "oc", "option": "ordered-categorical-in-C"}
            m.case(case, canon=[text, "ordered-in-C"], nontrivial=True)
            m.ev("options-honoured")
            try:
                dmc = formulae.design_matrices("y ~ " + text, dfc)
                name = text.replace("0 + ", "")
                X = np.asarray(dmc.common[name], dtype=float)
                want = np.column_stack([(rows_o == l).astype(float) for l in kept])
                if X.shape != want.shape or not np.array_equal(X, want) or list(dmc.common.terms[name].labels) != [f"{name}[{l}]" for l in kept]:
                    m.violation("options-honoured", f"{text} on an ordered categorical declared {decl}: the declared order is not respected "
                                f"(labels {dmc.common.terms[name].labels})", case=case, key="ordered-categorical-in-C")
            except Exception as e:
                m.violation("options-honoured", f"{text}: {type(e).__name__}: {e}", case=case, key="raises")

        def ocut(v):
            return pd.Categorical(np.where(np.asarray(v) > 0, "hi", "lo"), categories=["never", "lo", "hi"], ordered=True)

        dfo = pd.DataFrame({"y": rng.normal(size=12), "x": rng.normal(size=12)})
        dfo.loc[0, "x"], dfo.loc[1, "x"] = 1.0, -1.0
        rows = np.where(dfo["x"].to_numpy() > 0, "hi", "lo")
        for text, kept in (("0 + ocut(x)", ["never", "lo", "hi"]), ("ocut(x)", ["lo", "hi"])):
            case = {"formula": "y ~ " + text, "levels": ["never", "lo", "hi"], "column": "ocut(x)", "option": "ordered-categorical-from-call"}
            m.case(case, canon=[text, "ocut"], nontrivial=True)
            m.ev("options-honoured")
            try:
                dmo = formulae.design_matrices("y ~ " + text, dfo, extra_namespace={"ocut": ocut})
                name = text.replace("0 + ", "")
                X = np.asarray(dmo.common[name], dtype=float)
                want = np.column_stack([(rows == l).astype(float) for l in kept])
                if X.shape != want.shape or not np.array_equal(X, want) or list(dmo.common.terms[name].labels) != [f"{name}[{l}]" for l in kept]:
                    m.violation("options-honoured", f"{text}: an ordered categorical returned by a call loses its declared order / categories "
                                f"(labels {dmo.common.terms[name].labels})", case=case, key="ordered-categorical-from-call")
            except Exception as e:
                m.violation("options-honoured", f"{text}: {type(e).__name__}: {e}", case=case, key="raises")
    # one encoding object shared by two factors with different levels
    if i == 0:
        from formulae.categorical import Sum, Treatment

        df, meta = frames.factorial_frame(np.random.default_rng(5), {"f": 3, "g": 4}, reps=2)
        for enc, name in ((Sum("f1"), "Sum"), (Treatment("f1"), "Treatment"), (Sum(), "Sum-default")):
            df2 = df.copy()
            df2["g"] = df2["g"].str.replace("g", "f")  # so that 'f1' is a level of both
            m.ev("options-honoured")
            m.case({"shared-encoding": name}, canon=["shared", name])
            dm = formulae.design_matrices("y ~ C(f, enc) + C(g, enc)", df2, extra_namespace={"enc": enc})
            with core.shadow():
                ref = attach.ORIG["design_matrices"]("y ~ C(f, e1) + C(g, e2)", df2, "drop", 0,
                                                     {"e1": type(enc)(*( [enc.omit] if hasattr(enc, "omit") else [enc.reference])),
                                                      "e2": type(enc)(*( [enc.omit] if hasattr(enc, "omit") else [enc.reference]))})
            if not np.array_equal(dm.common.design_matrix, ref.common.design_matrix):
                m.violation("options-honoured", f"one {name} object used for two factors gives another design than two objects",
                            key="shared-encoding")


SWAP_FORMULAS = ["{g} + f", "f*{g}", "f:{g} + x", "0 + {g} + f:x", "{g}:x + f", "x + {g}:x", "0 + f:{g}", "{g}", "f + {g} + f:{g}:h"]


def swap_driver(m, i, nshards, tier, seed):
    import formulae

    rng = random.Random(seed * 1000003 + i * 43 + 13)
    ncases = (1000 if tier == "quick" else 20000) // nshards
    for _ in range(ncases):
        L = {"f": rng.choice([2, 3]), "g": rng.choice([2, 3, 4]), "h": 2}
        fs = rng.randrange(2 ** 31)
        df, meta = frames.factorial_frame(np.random.default_rng(fs), L, reps=3, kinds={"g": rng.choice(["str", "obj", "cat"])})
        glv = meta["g"]["levels"]
        r, o = rng.choice(glv), rng.choice(glv)
        perm = list(glv)
        rng.shuffle(perm)
        variants = ["C(g)", "T(g)", f"T(g, {r!r})", "S(g)", f"S(g, {o!r})", "C(g, Sum)", f"C(g, Treatment({r!r}))", "C(g, levels=lvp)",
                    f"C(g, Sum({o!r}), lvp)"]
        tmpl = rng.choice(SWAP_FORMULAS)
        v = rng.choice(variants)
        case = {"template": tmpl, "variant": v, "levels": L, "frame_seed": fs}
        m.case(case, canon=[tmpl, v, L, fs], nontrivial=True)
        m.ev("coding-swap")
        try:
            with core.shadow():
                base = attach.ORIG["design_matrices"]("y ~ " + tmpl.format(g="g"), df)
            dm = formulae.design_matrices("y ~ " + tmpl.format(g=v), df, extra_namespace={"lvp": perm})
        except Exception as e:
            m.violation("coding-swap", f"{tmpl.format(g=v)}: {type(e).__name__}: {e}", case=case, key="swap:raises")
            continue
        A, B = np.asarray(base.common.design_matrix, dtype=float), np.asarray(dm.common.design_matrix, dtype=float)
        if A.shape[1] != B.shape[1] or space.residual_outside(A, B) > 1e-7 or space.residual_outside(B, A) > 1e-7:
            m.violation("coding-swap", f"'{tmpl.format(g=v)}' spans another space than '{tmpl.format(g='g')}' "
                        f"({B.shape[1]} vs {A.shape[1]} columns)", case=case, key="swap:space")
        m.cls("variant:" + v.split("(")[0] + ("-opt" if "," in v else ""))


def run_shard(i, n, tier, seed, m):
    core.guarded(direct_driver)(m, i, n, tier)
    core.guarded(design_driver)(m, i, n, tier)
    core.guarded(swap_driver)(m, i, n, tier, seed)
    cross(i, n, tier, seed, m)


def cross(i, n, tier, seed, m):
    """The same monitors watching other properties' workloads (see core.cross_workloads)."""
    core.cross_workloads(m, DECIDING, ['C06', 'C10', 'C05'], tier, seed, i, n, 400 if tier == "quick" else 4000)


def replay(rec, m):
    register_hooks(m)
    case = rec["case"]
    if "template" in case:
        swap_driver(m, 0, 1, "quick", rec.get("seed", 0))
    elif "formula" in case:
        design_driver(m, 0, 1, "quick")
    else:
        direct_driver(m, 0, 1, "quick")
