"""C03 - common-effects matrix: full column rank, spans exactly the model space.

Deciding monitor (boundary): post-condition on design_matrices for driver-made designs on
replicated complete-factorial frames:
  builds                 the call returns
  full-column-rank       rank(X) == ncols(X)
  spans-model-space      rank(X) == rank(R) == rank([X R]),  R = all-indicator coding of every term
"""
import itertools
import random

import numpy as np

from fmon import core, attach
from fmon.ref import space
from workloads import frames

PROP = "C03"
DECIDING = ["builds", "full-column-rank", "spans-model-space"]
CAT = ["f", "g", "h", "k"]
NUM = ["x", "z"]


def is_cat(v, case):
    """`m` is a column whose KIND differs between designs built from the same formula text."""
    return v in CAT or (v == "m" and case.get("m_kind") == "cat")


def spec(tier):
    return {
        "level": "exploration",
        "deciding": DECIDING,
        "timeout": 900 if tier == "quick" else 5400,
        "exhaustive": True,
        "rule": (
            "exhaustive: every ordered family of 1..3 distinct terms over the variables {f, g, h, x} (15 "
            "candidate terms), with and without intercept (5910 designs), each on a fresh replicated "
            "complete-factorial frame with level counts 2..4; the same families with shuffled factor order "
            "inside terms and with atoms replaced by C/T/S/C(k)/scale/bs/poly variants and z (sampled); "
            "thorough adds every family of subsets of four two-level factors (2^15 families x intercept) and "
            "4-term families over {f, g, h, x, z}. distinct = distinct (formula text, level counts); "
            "non-trivial = at least one categorical factor."
        ),
        "assumptions": [
            "frames are replicated complete factorials with continuous numerics (the statement's premise), built by the driver",
            "rank decided by SVD on column-normalised matrices, relative tolerance 1e-9",
            "numeric call atoms enter the reference space through a shadow evaluation of `0 + atom` (C14 owns their values)",
        ],
        "classify": lambda v: v.get("key"),
    }


ATOM_VARIANTS = {
    "f": ["f", "C(f)", "T(f)", "S(f)", "C(f, Sum)", "T(f, 'f1')"],
    "g": ["g", "C(g)", "S(g)"],
    "h": ["h", "C(h)", "T(h)"],
    "k": ["C(k)", "T(k)", "S(k)", "C(k, Treatment)"],
    "x": ["x", "scale(x)", "center(x)", "I(x * 2)", "bs(x, df=4)", "poly(x, 2)", "np.exp(x)"],
    "z": ["z", "scale(z)", "poly(z, 2)", "{z + 1}"],
}


def build_text(case):
    if case.get("rhs_ops"):
        rhs = case["rhs_ops"]
        if not case["intercept"]:
            rhs = "0 + " + rhs
        return "y ~ " + rhs
    atoms = case.get("atoms", {})
    terms = [":".join(atoms.get(v, "C(k)" if v == "k" else v) for v in t) for t in case["terms"]]
    rhs = " + ".join(terms)
    if not case["intercept"]:
        rhs = ("0 + " + rhs) if case.get("zero_style", 0) == 0 else (rhs + " - 1")
    return "y ~ " + rhs


def make_case_frame(case):
    rng = np.random.default_rng(case["frame_seed"])
    used = sorted({v for t in case["terms"] for v in t})
    factors = {v: case["levels"][v] for v in used if is_cat(v, case)}
    kinds = {"f": "str", "g": "cat", "h": "ocat", "k": "code", "m": "str"}
    df, meta = frames.factorial_frame(rng, factors, reps=case.get("reps", 2), numerics=("x", "z"),
                                      kinds={v: kinds[v] for v in factors}, extra_rows=case.get("extra", 0))
    if "m" in used and not is_cat("m", case):
        df["m"] = rng.normal(size=len(df)) + 1.0
        meta["m"] = {"kind": "num"}
    return df, meta


def judge(case, m):
    import formulae

    text = build_text(case)
    case = {**case, "text": text}
    df, meta = make_case_frame(case)
    # general position needs more rows than the model space has dimensions
    need = 1 + sum(int(np.prod([case["levels"][v] if is_cat(v, case) else 4 for v in t])) for t in case["terms"])
    # multi-column numeric atoms (bs, poly) need that many distinct points in *every* cell
    width = {"bs(x, df=4)": 5, "poly(x, 2)": 3, "poly(z, 2)": 3}
    per_cell = max([int(np.prod([width.get(case.get("atoms", {}).get(v, v), 2) for v in t if v in NUM]))
                    for t in case["terms"]] + [1])
    if case.get("reps", 2) < 3 * per_cell + 2 and per_cell > 2:
        case["reps"] = 3 * per_cell + 2
        df, meta = make_case_frame(case)
    while len(df) < need + 4:
        case["reps"] = case.get("reps", 2) * 2
        df, meta = make_case_frame(case)
    n = len(df)
    m.ev("builds")
    try:
        dm = formulae.design_matrices(text, df)
    except Exception as e:
        m.violation("builds", f"{type(e).__name__}: {e}", case=case, key="raises:" + type(e).__name__)
        return
    X = np.asarray(dm.common.design_matrix, dtype=float) if dm.common is not None else np.zeros((n, 0))
    # reference space
    atoms = case.get("atoms", {})
    cache = {}

    def atom_matrix(v):
        if v in cache:
            return cache[v]
        if is_cat(v, case):
            mat = space.indicators(df[v].tolist(), meta[v]["levels"])
        else:
            text_atom = atoms.get(v, v)
            if text_atom == v:
                mat = df[v].to_numpy(dtype=float)[:, None]
            else:
                with core.shadow():
                    sh = attach.ORIG["design_matrices"](f"0 + {text_atom}", df)
                mat = np.asarray(sh.common.design_matrix, dtype=float)
        cache[v] = mat
        return mat

    R = space.model_space(n, [[atom_matrix(v) for v in t] for t in case["terms"]], case["intercept"])
    m.ev("full-column-rank")
    ratio = space.min_sv_ratio(X)
    if ratio < 1e-9:
        m.violation("full-column-rank",
                    f"{text}: {X.shape[1]} columns but rank {space.rank(X)} (smallest/largest singular value "
                    f"{ratio:.1e}); model space has dimension {space.rank(R)}", case=case, key="rank-deficient")
    m.ev("spans-model-space")
    lost = space.residual_outside(X, R)  # part of the model space not reachable from X
    extra = space.residual_outside(R, X)  # part of X outside the model space
    if lost > 1e-6 or extra > 1e-6:
        key = "loses-dimensions" if lost > 1e-6 else "outside-model-space"
        m.violation("spans-model-space",
                    f"{text}: residual of model space outside X {lost:.1e}, of X outside model space {extra:.1e}; "
                    f"rank(X)={space.rank(X)} rank(R)={space.rank(R)}; columns={list(dm.common.terms)}",
                    case=case, key=key)
    m.cls("terms:%d" % len(case["terms"]), "intercept:%s" % case["intercept"],
          "maxorder:%d" % max(len(t) for t in case["terms"]))


def subsets(vars_):
    out = []
    for r in range(1, len(vars_) + 1):
        out.extend(itertools.combinations(vars_, r))
    return out


def enum_cases(tier):
    """Deterministic, seed independent."""
    terms = subsets(["f", "g", "h", "x"])
    k = 0
    for r in (1, 2, 3):
        for fam in itertools.permutations(terms, r):
            for intercept in (True, False):
                yield k, {"terms": [list(t) for t in fam], "intercept": intercept}
                k += 1
    terms4 = subsets(["f", "g", "h", "k"])
    # four two-level factors: every family of at most three terms in the quick tier, every family in thorough
    for mask in range(1, 2 ** 15):
        if tier != "thorough" and bin(mask).count("1") > 3:
            continue
        if True:
            fam = [terms4[j] for j in range(15) if mask >> j & 1]
            for intercept in (True, False):
                yield k, {"terms": [list(t) for t in fam], "intercept": intercept, "two_level": True}
                k += 1


def finish_case(case, k, seed):
    r = random.Random(k * 2654435761 % (2 ** 31) + 17)
    if case.get("two_level"):
        case["levels"] = {v: 2 for v in CAT + ["m"]}
        case["reps"] = 2
    else:
        case["levels"] = {v: r.choice([2, 3, 3, 4]) for v in CAT + ["m"]}
        case["reps"] = r.choice([2, 2, 3])
    case["frame_seed"] = (k * 7919 + seed * 104729 + 5) % (2 ** 31)
    case["zero_style"] = k % 2
    return case


def run_shard(i, n, tier, seed, m):
    for k, case in enum_cases(tier):
        if k % n != i:
            continue
        case = finish_case(case, k, seed)
        m.cases += 1
        m.distinct_count_only += 1
        m.current_case = case
        if len(m.samples) < 3 and (k // n) % 211 == 0:
            m.samples.append({**case, "text": build_text(case)})
        judge(case, m)
    # the same variable plain in one interaction and through a call in another one (x and np.exp(x) are two numerics)
    same_var = [([["f", "x"], ["f", "xe"]], {"xe": "np.exp(x)"}), ([["x", "z"], ["x", "ze"]], {"ze": "np.exp(z / 4)"}),
                ([["f"], ["f", "x"], ["f", "xe"]], {"xe": "np.exp(x)"}), ([["x"], ["f", "x"], ["g", "xe"], ["f", "g", "xe"]], {"xe": "I(x ** 3)"}),
                ([["f", "g", "x"], ["f", "g", "xe"], ["f", "g"]], {"xe": "np.abs(x)"})]
    for j, (fam, atoms) in enumerate(same_var):
        for intercept in (True, False):
            if (2 * j + intercept) % n != i:
                continue
            case = finish_case({"terms": [list(t) for t in fam], "intercept": intercept, "atoms": dict(atoms)}, 900000 + j, seed)
            text = build_text(case)
            m.case({**case, "text": text}, canon=[text, case["levels"]], nontrivial=True)
            m.cls("same-variable-twice")
            judge(case, m)
    # sampled: shuffled factor order, atom variants, z, C(k), 4-term families
    rng = random.Random(seed * 1000003 + i * 31 + 3)
    nrand = (4000 if tier == "quick" else 60000) // n
    pool_vars = ["f", "g", "h", "k", "x", "z"]
    from workloads import designs as D

    # histories: the SAME formula text on frames where the column m is numeric, then a factor, then numeric
    # again - whatever an earlier design decided must not be reused for a later one
    flip_terms = subsets(["f", "g", "m", "x"])
    for j in range(nrand // 4):
        fam = [list(t) for t in rng.sample(flip_terms, rng.choice([1, 2, 2, 3]))]
        if not any("m" in t for t in fam):
            fam.append(rng.choice([["m"], ["f", "m"], ["g", "m", "x"], ["m", "x"]]))
        fam = [t for q, t in enumerate(fam) if sorted(t) not in [sorted(u) for u in fam[:q]]]
        intercept = rng.random() < 0.5
        base_k = rng.randrange(10 ** 9)
        for step, kind in enumerate(rng.choice([["num", "cat", "num"], ["cat", "num", "cat"]])):
            case = {"terms": [list(t) for t in fam], "intercept": intercept, "m_kind": kind}
            case = finish_case(case, base_k + step, seed)
            case["zero_style"] = 0
            full = build_text(case)
            m.case({**case, "text": full}, canon=[full, case["levels"], kind, base_k], nontrivial=True)
            m.cls("kind-flip:" + kind)
            judge(case, m)
    for j in range(nrand // 2):
        # operator-written families (+ : * / **): the same component objects may be reused by the
        # term algebra in several terms; the expected terms come from the reference algebra
        vars_ = rng.sample(pool_vars, rng.choice([2, 3, 3, 4]))
        atoms = {v: (rng.choice([a for a in ATOM_VARIANTS[v] if "{" not in a]) if rng.random() < 0.3 else
                     ("C(k)" if v == "k" else v)) for v in vars_}
        back = {a: v for v, a in atoms.items()}
        text = D.op_expression(rng, [atoms[v] for v in vars_])
        fam = [[back[nm] for nm in t] for t in D.expand_rhs(text)]
        if not fam or not any(v in CAT for t in fam for v in t):
            continue
        case = {"terms": fam, "intercept": rng.random() < 0.6, "atoms": atoms, "rhs_ops": text}
        case = finish_case(case, rng.randrange(10 ** 9), seed)
        full = build_text(case)
        m.case({**case, "text": full}, canon=[full, case["levels"]], nontrivial=True)
        m.cls("operator-written")
        judge(case, m)
    for j in range(nrand):
        nv = rng.choice([3, 4, 4, 5])
        vars_ = rng.sample(pool_vars, nv)
        terms = subsets(vars_)
        nt = rng.choice([1, 2, 3, 3, 4]) if tier == "quick" else rng.choice([2, 3, 4, 5])
        fam = rng.sample(terms, min(nt, len(terms)))
        # W-R term identity: a set of terms has no two terms with the same factor set
        fam = [list(t) for t in fam]
        for t in fam:
            rng.shuffle(t)
        if sum(len(t) for t in fam if any(v in CAT for v in t)) == 0:
            continue
        case = {"terms": fam, "intercept": rng.random() < 0.6}
        if rng.random() < 0.6:
            case["atoms"] = {v: rng.choice(ATOM_VARIANTS[v]) for v in vars_ if rng.random() < 0.6}
        case = finish_case(case, rng.randrange(10 ** 9), seed)
        case["extra"] = rng.choice([0, 0, 3])
        text = build_text(case)
        m.case({**case, "text": text}, canon=[text, case["levels"]], nontrivial=True)
        judge(case, m)


def replay(rec, m):
    judge(rec["case"], m)
