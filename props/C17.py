"""C17 - matrix containers are internally consistent.

Invariants checked (intrinsic, on hooked design_matrices / evaluate_new_data) on EVERY DesignMatrices
created and on EVERY object returned by evaluate_new_data, in the driver's workload and while the
repository's tests run (W0):
  slices-tile-columns     per-term slices are contiguous, start at 0, follow the term order, cover the columns
  getitem-is-slice        m[name] is design_matrix[:, slices[name]]; an unknown name is refused
  views-agree             as_dataframe().to_numpy(), np.asarray(m), np.array(m), tuple unpacking and
                          .design_matrix expose the same numbers
  labels-unique-and-count as many labels as columns; unique (frames without hostile level names)
  rows-aligned            response, common and group have one row per retained observation
  printing-reports-shape  str() and repr() succeed and contain the actual shape
Histories: chains of evaluate_new_data on the same design, with and without unseen groups / levels,
re-checking the original and every earlier result after each step.
"""
import random

import numpy as np
import pandas as pd

from fmon import core, attach
from workloads import designs as D

PROP = "C17"
DECIDING = ["slices-tile-columns", "getitem-is-slice", "views-agree", "labels-unique-and-count", "rows-aligned",
            "printing-reports-shape"]
CTX = {"hostile": False}
LAST = {}


def spec(tier):
    return {
        "level": "exploration",
        "deciding": DECIDING,
        "timeout": 900 if tier == "quick" else 5400,
        "w0": True,
        "rule": (
            "seeded random designs (plain / stateful atoms, multi-column transforms, codings, operator-written "
            "formulas, several group-specific terms per formula, every response form, single-level factors and rows "
            "dropped by na_action) and, per design, a chain of 2..5 evaluate_new_data calls on frames with and "
            "without unseen groups / levels (modes silent and warning), after each of which the invariants are "
            "re-checked on the original matrices and on every earlier result; the same invariants fire on every "
            "object the repository's tests create (W0). distinct = distinct (formula, frame seed); non-trivial = "
            "at least two terms or one group term."
        ),
        "assumptions": ["label uniqueness is judged on frames without hostile level names (levels containing : | [ ] can legitimately collide)"],
        "classify": lambda v: v.get("key"),
    }


def check_matrix(kind, M, m, nrows=None, origin=""):
    """kind: common | group | response."""
    X = M.design_matrix
    if kind == "response":
        m.ev("views-agree")
        try:
            A = np.asarray(M)
            if A.shape != np.asarray(X).shape or not np.array_equal(A, X, equal_nan=True):
                m.violation("views-agree", f"response: np.asarray differs from design_matrix", key="views:response")
            dfv = M.as_dataframe()
            V = dfv.to_numpy()
            if V.shape[0] != np.asarray(X).shape[0] or not np.array_equal(V.reshape(np.asarray(X).shape).astype(float), np.asarray(X, dtype=float), equal_nan=True):
                m.violation("views-agree", f"response: as_dataframe() {V.shape} differs from design_matrix {np.asarray(X).shape}", key="views:response-dataframe")
            if len(set(dfv.columns)) != len(dfv.columns):
                m.violation("labels-unique-and-count", f"response labels {list(dfv.columns)}", key="labels:response")
        except Exception as e:
            m.violation("views-agree", f"response: {type(e).__name__}: {e}", key="views:response-raises")
        m.ev("printing-reports-shape")
        try:
            s1, s2 = str(M), repr(M)
            if str(np.asarray(X).shape) not in s1 or str(np.asarray(X).shape) not in s2:
                m.violation("printing-reports-shape", f"response: printed text lacks the shape {np.asarray(X).shape}", key="print:response-shape")
        except Exception as e:
            m.violation("printing-reports-shape", f"response: str() raised {type(e).__name__}: {e}", key="print:response-raises")
        return
    X = np.asarray(X)
    ncol = X.shape[1] if X.ndim == 2 else 0
    # slices
    m.ev("slices-tile-columns")
    names = list(M.terms)
    start = 0
    ok = list(M.slices) == names
    for nm in names:
        sl = M.slices.get(nm)
        if sl is None or sl.start != start or sl.stop < sl.start or (sl.step not in (None, 1)):
            ok = False
            break
        start = sl.stop
    if not ok or start != ncol:
        m.violation("slices-tile-columns", f"{kind}: slices {[(k, v.start, v.stop) for k, v in M.slices.items()]} do not tile "
                    f"the {ncol} columns in term order {names}", key="slices:" + kind)
    # getitem
    m.ev("getitem-is-slice")
    try:
        for nm in names:
            sub = M[nm]
            sl = M.slices[nm]
            if not np.array_equal(np.asarray(sub), X[:, sl], equal_nan=True):
                m.violation("getitem-is-slice", f"{kind}[{nm!r}] is not design_matrix[:, {sl.start}:{sl.stop}]", key="getitem:" + kind)
                break
        try:
            M["no such term !"]
            m.violation("getitem-is-slice", f"{kind}: unknown term name accepted", key="getitem:unknown-accepted")
        except Exception:
            pass
    except Exception as e:
        m.violation("getitem-is-slice", f"{kind}: {type(e).__name__}: {e}", key="getitem:raises")
    # views
    m.ev("views-agree")
    try:
        A, B = np.asarray(M), np.array(M)
        if A.shape != X.shape or not np.array_equal(A, X, equal_nan=True) or not np.array_equal(B, X, equal_nan=True):
            m.violation("views-agree", f"{kind}: numpy conversion differs from design_matrix", key="views:numpy-" + kind)
        if B.size and np.shares_memory(B, X):
            # np.array(m) promises a copy: writing into it must not reach the design
            m.violation("views-agree", f"{kind}: np.array(matrix) shares memory with design_matrix", key="views:array-not-a-copy")
        if hasattr(M, "as_dataframe"):
            dfv = M.as_dataframe()
            V = dfv.to_numpy()
            if V.shape != X.shape or not np.array_equal(V.astype(float), X.astype(float), equal_nan=True):
                m.violation("views-agree", f"{kind}: as_dataframe() {V.shape} differs from design_matrix {X.shape}", key="views:dataframe-" + kind)
    except Exception as e:
        m.violation("views-agree", f"{kind}: {type(e).__name__}: {e}", key="views:raises-" + kind)
    # labels
    m.ev("labels-unique-and-count")
    try:
        labels = []
        widened = False
        for nm, t in M.terms.items():
            lab = ["Intercept"] if type(t).__name__ == "Intercept" else list(t.labels)
            sl = M.slices[nm]
            w = sl.stop - sl.start
            if len(lab) != w:
                if kind == "group" and w > len(lab) and len(getattr(t, "groups", [])) and w == len(lab) // len(t.groups) * (len(t.groups) + 1):
                    widened = True  # one extra block for unseen groups (C10 owns its content)
                else:
                    m.violation("labels-unique-and-count", f"{kind}: term {nm!r} has {len(lab)} labels for {w} columns", key="labels:count-" + kind)
            labels += lab
        if not CTX["hostile"] and len(set(labels)) != len(labels):
            dup = sorted({l for l in labels if labels.count(l) > 1})[:3]
            m.violation("labels-unique-and-count", f"{kind}: duplicated labels {dup}", key="labels:duplicate-" + kind)
    except Exception as e:
        m.violation("labels-unique-and-count", f"{kind}: {type(e).__name__}: {e}", key="labels:raises-" + kind)
    if nrows is not None:
        m.ev("rows-aligned")
        if X.shape[0] != nrows:
            m.violation("rows-aligned", f"{kind}: {X.shape[0]} rows, {nrows} expected", key="rows:" + kind)
    m.ev("printing-reports-shape")
    try:
        s1, s2 = str(M), repr(M)
        if str(X.shape) not in s1 or str(X.shape) not in s2:
            m.violation("printing-reports-shape", f"{kind}: printed text lacks the actual shape {X.shape}", key="print:shape-" + kind)
    except Exception as e:
        m.violation("printing-reports-shape", f"{kind}: str() raised {type(e).__name__}: {e}", key="print:raises-" + kind)


def check_design(dm, m):
    rows = None
    parts = [("response", dm.response), ("common", dm.common), ("group", dm.group)]
    for kind, part in parts:
        if part is not None:
            r = np.asarray(part.design_matrix).shape[0] if np.asarray(part.design_matrix).ndim else None
            if rows is None:
                rows = r
            elif r != rows:
                m.ev("rows-aligned")
                m.violation("rows-aligned", f"{kind} has {r} rows, another part has {rows}", key="rows:parts")
    for kind, part in parts:
        if part is not None:
            check_matrix(kind, part, m, nrows=rows)
    # tuple unpacking
    m.ev("views-agree")
    try:
        a, b, c = dm
        if a is not dm.response or b is not dm.common or c is not dm.group or dm[1] is not dm.common:
            m.violation("views-agree", "tuple unpacking does not give (response, common, group)", key="views:unpacking")
    except Exception as e:
        m.violation("views-agree", f"unpacking raised {type(e).__name__}: {e}", key="views:unpacking-raises")
    m.ev("printing-reports-shape")
    try:
        s = str(dm) + repr(dm)
        for kind, part in parts:
            if part is not None and str(np.asarray(part.design_matrix).shape) not in s:
                m.violation("printing-reports-shape", f"DesignMatrices: printed text lacks the shape of {kind}", key="print:design")
    except Exception as e:
        m.violation("printing-reports-shape", f"DesignMatrices: str() raised {type(e).__name__}: {e}", key="print:design-raises")


def hook_dm_post(dm, formula, data, na_action, extra_namespace):
    check_design(dm, core.mon())


def hook_end_post(kind, matrix, new_data, result):
    m = core.mon()
    if kind in ("common", "group"):
        check_matrix(kind, result, m, nrows=len(new_data))


def register_hooks(m, foreign=False):
    attach.HOOKS["dm_post"].append(hook_dm_post)
    attach.HOOKS["end_post"].append(hook_end_post)


def judge(case, m):
    import formulae

    df, meta = D.case_frame(case["frame"])
    text = D.formula_text(case)
    case = {**case, "text": text}
    m.current_case = case
    CTX["hostile"] = bool(case["frame"].get("hostile"))
    rng = np.random.default_rng(case["frame"]["seed"] + 17)
    if case.get("single_level"):
        df["h"] = pd.Series([df["h"].iloc[0]] * len(df), dtype="str")
        meta["h"]["levels"] = [df["h"].iloc[0]]
    if case.get("nan_rows") == "all":
        df["x"] = np.nan  # every row is dropped when x is used: containers with zero rows
        df["y"] = np.nan
    elif case.get("nan_rows") and len(df) > 4:
        df.loc[df.index[rng.choice(len(df), size=2, replace=False)], "x"] = np.nan
        if rng.random() < 0.6:  # repeated index labels: rows are positions, not labels
            lab = np.repeat(np.arange((len(df) + 1) // 2), 2)[: len(df)]
            df.index = pd.Index(lab)
    ns = D.namespace(meta)
    formulae.config["EVAL_UNSEEN_CATEGORIES"] = "error"
    try:
        dm = formulae.design_matrices(text, df, extra_namespace=ns)  # invariants fire in the hook
    except Exception as e:
        m.note("design-raised:" + type(e).__name__)
        return
    # one row per RETAINED observation: rows that are complete in the variables the formula uses
    used_vars = set()
    try:
        for t in case["terms"] + [g["factor"] for g in case.get("group", [])] + [g["effect"] for g in case.get("group", []) if g["effect"] != "1"]:
            for a in t:
                used_vars.update(D.atom(a, meta).vars)
        resp = case.get("resp")
        for c in df.columns:
            if resp and (resp == c or resp.startswith(c + "[") or f"({c}" in resp or f", {c}" in resp or f"`{c}`" in resp):
                used_vars.add(c)
        retained = int(df[sorted(v for v in used_vars if v in df.columns)].notna().all(axis=1).sum()) if used_vars else len(df)
        m.ev("rows-aligned")
        for kind, part in (("response", dm.response), ("common", dm.common), ("group", dm.group)):
            if part is not None and np.asarray(part.design_matrix).ndim and np.asarray(part.design_matrix).shape[0] != retained:
                m.violation("rows-aligned", f"{kind}: {np.asarray(part.design_matrix).shape[0]} rows, but {retained} observations are complete "
                            f"in the used variables {sorted(used_vars)}", key="rows:retained")
                break
    except KeyError:
        pass
    # an earlier design built from the same formula text must still be consistent now
    prev = LAST.pop("design", None)
    LAST["design"] = (dm, text)
    if prev is not None and prev[1] == text:
        m.cls("earlier-design-rechecked")
        check_design(prev[0], m)
    # chain of evaluations; unseen groups / levels in some of them
    if len(df) == 0 or case.get("nan_rows") == "all":
        m.cls("zero-row-design")
        return
    kept = []
    cat_cols = [c for c in ("g", "g2", "s", "h", "o") if c in df.columns]
    for step in range(int(rng.integers(2, 6))):
        new = df.iloc[rng.integers(0, len(df), size=int(rng.integers(1, 9)))].reset_index(drop=True)
        new["x"] = new["x"].fillna(0.0)
        new["zz_unused"] = 1.5 + step  # a column no formula uses: numeric here, text in the frame evaluated FROM the result
        mode = "error"
        if step % 2 == 1:
            col = cat_cols[int(rng.integers(0, len(cat_cols)))]
            vals = new[col].tolist()
            for r in rng.choice(len(new), size=max(1, len(new) // 2), replace=False):
                vals[r] = "UNSEEN"
            new[col] = pd.Series(vals, dtype=object if meta[col]["kind"] == "obj" else "str")
            mode = ["silent", "warning"][int(rng.integers(0, 2))]
        formulae.config["EVAL_UNSEEN_CATEGORIES"] = mode
        for kind, part in (("common", dm.common), ("group", dm.group)):
            if part is None:
                continue
            try:
                kept.append((kind, part.evaluate_new_data(new), len(new)))
            except Exception as e:
                m.note("newdata-raised:" + type(e).__name__)
        # a derived matrix is itself a matrix object: evaluating new data FROM it (here: the training-like frame,
        # without unseen levels) must give a consistent object again
        if kept and step % 2 == 1:
            kind0, obj0, _ = kept[-1]
            plain = df.iloc[rng.integers(0, len(df), size=3)].reset_index(drop=True)
            plain["x"] = plain["x"].fillna(0.0)
            plain["zz_unused"] = "text"
            try:
                formulae.config["EVAL_UNSEEN_CATEGORIES"] = "error"
                kept.append((kind0, obj0.evaluate_new_data(plain), len(plain)))
                m.cls("evaluated-from-derived")
                if kind0 == "group":
                    # what a derived matrix says about new groups refers to the TRAINING groups, not to its parent's
                    r0 = kept[-1][1]
                    m.ev("slices-tile-columns")
                    if tuple(r0.factors_with_new_levels) != () or r0.design_matrix.shape[1] != dm.group.design_matrix.shape[1]:
                        m.violation("slices-tile-columns", f"group matrix derived from a derived matrix (parent had new groups: "
                                    f"{tuple(obj0.factors_with_new_levels)}), evaluated on training rows: factors_with_new_levels="
                                    f"{tuple(r0.factors_with_new_levels)}, {r0.design_matrix.shape[1]} columns, training has "
                                    f"{dm.group.design_matrix.shape[1]}", key="derived:new-groups-on-training-rows")
                    affected = []
                    for t in dm.group.terms.values():
                        if col in t.factor.var_names and t.factor.name not in affected:
                            affected.append(t.factor.name)
                    if affected:
                        again = plain.copy()
                        vals2 = again[col].tolist()
                        vals2[0] = "UNSEEN-2"
                        again[col] = pd.Series(vals2, dtype=object if meta[col]["kind"] == "obj" else "str")
                        formulae.config["EVAL_UNSEEN_CATEGORIES"] = "silent"
                        r1 = obj0.evaluate_new_data(again)
                        kept.append((kind0, r1, len(again)))
                        formulae.config["EVAL_UNSEEN_CATEGORIES"] = "error"
                        m.ev("slices-tile-columns")
                        if sorted(r1.factors_with_new_levels) != sorted(affected):
                            m.violation("slices-tile-columns", f"group matrix derived from a derived matrix, new frame with an unseen level of {col}: "
                                        f"factors_with_new_levels={tuple(r1.factors_with_new_levels)}, expected {tuple(affected)}",
                                        key="derived:new-groups-not-reported")
            except Exception as e:
                m.note("derived-newdata-raised:" + type(e).__name__)
                # a frame the design itself evaluates is evaluated from a matrix derived from it just as well
                m.ev("rows-aligned")
                try:
                    with core.shadow():
                        formulae.config["EVAL_UNSEEN_CATEGORIES"] = "error"
                        (dm.common if kind0 == "common" else dm.group).evaluate_new_data(plain)
                    m.violation("rows-aligned", f"{kind0}: evaluating a frame FROM a derived matrix raised {type(e).__name__}: {e}; the design "
                                "itself evaluates that frame", key="derived:raises-where-direct-works")
                except Exception:
                    pass
        # the original matrices and every earlier result must still be consistent
        with_guard = core.mon()
        check_design(dm, with_guard)
        for kind, obj, nr in kept:
            check_matrix(kind, obj, with_guard, nrows=nr)
        m.cls("chain-step-mode:" + mode)
    formulae.config["EVAL_UNSEEN_CATEGORIES"] = "error"
    m.cls("group-terms:%d" % len(case.get("group", [])), "response:%s" % case.get("resp"))


def judge_zero_rows(case, m):
    import formulae

    df, meta = D.case_frame(case["frame"])
    df["x"] = np.nan
    CTX["hostile"] = False
    m.current_case = case
    try:
        formulae.design_matrices(case["zero_rows_text"], df, extra_namespace=D.namespace(meta))  # invariants fire in the hook
        m.cls("zero-row-design")
    except Exception as e:
        m.note("design-raised:" + type(e).__name__)


RESPONSES = ["y", "y", "yb", "cu", "co", "yb['yes']", "s[%s]", "prop(succ, tr)", "np.log(w)", None]


def run_shard(i, n, tier, seed, m):
    rng = random.Random(seed * 1000003 + i * 61 + 17)
    ncases = (2000 if tier == "quick" else 30000) // n
    prev_case = None
    for k in range(ncases):
        case = D.random_case(rng, profile="stateful" if k % 2 else "plain", hostile=(k % 5 == 0), group_p=0.6,
                             min_rows=4, with_refs=(k % 4 == 0))
        case["resp"] = rng.choice(RESPONSES)
        if case["resp"] == "s[%s]":
            case["resp"] = "s['%s']" % "a"
        if k % 5 == 4 and prev_case is not None:
            case = {**prev_case, "frame": case["frame"]}  # the same formula text (response included) on other data
        prev_case = dict(case)
        case["single_level"] = k % 9 == 4
        case["nan_rows"] = "all" if k % 23 == 9 else (k % 7 == 2)
        text = D.formula_text(case)
        nontrivial = len(case["terms"]) >= 2 or bool(case["group"])
        m.case({**case, "text": text}, canon=[text, case["frame"]["seed"]], nontrivial=nontrivial)
        judge(case, m)
    if i == 0:
        # containers without any row (every row dropped) and without any group
        for j, text in enumerate(["y ~ x + (1 | g)", "y ~ x + (x | g) + (1 | g2)", "y ~ w + (0 + cnt | C(k))", "y ~ x", "y ~ 0 + x + (1 | g:g2)",
                                  "yb['yes'] ~ x + (x | g)"]):
            case = {"frame": {"seed": 1700 + j, "hostile": False, "min_rows": 5, "max_rows": 12}, "resp": None, "intercept": True,
                    "terms": [], "group": [], "zero_rows_text": text, "nan_rows": "all"}
            m.case(case, canon=["zero-rows", text])
            core.guarded(judge_zero_rows)(case, m)
    cross(i, n, tier, seed, m)


def cross(i, n, tier, seed, m):
    """The same monitors watching other properties' workloads (see core.cross_workloads)."""
    CTX["hostile"] = True  # foreign drivers use hostile level names freely: label uniqueness is not judged there
    core.cross_workloads(m, DECIDING, ['C05', 'C10', 'C15', 'C16', 'C09'], tier, seed, i, n, 600 if tier == "quick" else 6000)


def replay(rec, m):
    register_hooks(m)
    if rec["case"].get("zero_rows_text"):
        judge_zero_rows(rec["case"], m)
    else:
        judge(rec["case"], m)
