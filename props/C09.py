"""C09 - missing-value policy: drop / error / pass.

Deciding monitor (boundary, relational) on design_matrices(f, d, na_action=a), with U = the columns
the formula uses, computed by the REFERENCE grammar from the formula text (names and backquoted
names in expression position: terms, call arguments, keyword-argument values, nested calls, group
terms, response; never callees or keyword names):
  drop-equals-complete-rows   'drop' == shadow run on d[complete(U)] (three matrices, labels, levels, rows)
  error-iff-incomplete        'error' raises ValueError iff a row is incomplete in U, else == 'drop'
  pass-keeps-rows             'pass' keeps all rows in order; complete rows are encoded as under 'drop';
                              an incomplete row is NaN in exactly the columns of the terms that mention
                              its missing numeric variable (plain variables and pointwise calls)
  other-policy-refused        any other na_action raises
"""
import random

import numpy as np
import pandas as pd

from fmon import core, attach
from fmon.ref import grammar as G
from workloads import designs as D

PROP = "C09"
DECIDING = ["drop-equals-complete-rows", "error-iff-incomplete", "pass-keeps-rows", "other-policy-refused", "same-object-sequence"]


def spec(tier):
    return {
        "level": "exploration",
        "deciding": DECIDING,
        "timeout": 900 if tier == "quick" else 5400,
        "rule": (
            "seeded random designs (variables inside calls, keyword arguments, nested calls, backquoted names, "
            "interactions, group terms and the response) x missingness patterns (none, one cell, several cells in "
            "one or several used columns incl. categorical / grouping / response columns, a used column missing but "
            "for two rows, only unused columns; the missing value is NaN, or pd.NA in nullable Int64 / Float64 / boolean columns) x the three policies (+ invalid policy names). distinct = distinct "
            "(formula, frame seed, pattern, policy); non-trivial = some used cell is missing."
        ),
        "assumptions": [
            "'pass' is judged for plain variables / pointwise calls with missing values in numeric variables only (the statement's scope); missing categorical values and stateful transforms under 'pass' are executed and counted",
            "the set of used columns comes from the reference grammar (fmon/ref/grammar.py), not from formulae",
        ],
        "classify": lambda v: v.get("key"),
    }


def sig(dm):
    out = {}
    out["response"] = None if dm.response is None else np.asarray(dm.response.design_matrix, dtype=float)
    out["response_levels"] = None if dm.response is None else dm.response.levels
    for nm, part in (("common", dm.common), ("group", dm.group)):
        if part is None:
            out[nm] = None
            continue
        out[nm] = np.asarray(part.design_matrix, dtype=float)
        out[nm + "_labels"] = [list(t.labels) for t in part.terms.values()]
        out[nm + "_slices"] = [(k, v.start, v.stop) for k, v in part.slices.items()]
    return out


def diff(a, b):
    for k in a:
        va, vb = a[k], b.get(k)
        if isinstance(va, np.ndarray):
            if not isinstance(vb, np.ndarray) or va.shape != vb.shape:
                return f"{k}: shape {getattr(vb, 'shape', None)} vs {va.shape}"
            if not np.allclose(va, vb, rtol=1e-10, atol=1e-12, equal_nan=True):
                return f"{k}: values differ"
        elif va != vb:
            return f"{k}: {vb!r} vs {va!r}"
    return None


def used_columns(text, columns):
    """Columns the MODEL uses: the reference grammar parses the text, the reference algebra expands it
    (so that the variables of a term that is subtracted again, `x + z - z`, do not count), and the names
    in expression position of every remaining factor, of the response and of call arguments are collected."""
    from fmon.ref import algebra as A

    ast = G.parse(text)
    names = set()
    try:
        resp, common, group = A.Algebra("ordered").model(ast)
        factors = []
        for t in common:
            if t[0] == "t":
                factors += list(t[1])
        for g in group:
            for part in (g[1], g[2]):
                if part[0] == "t":
                    factors += list(part[1])
        if ast[0] == "bin" and ast[1] == "~":
            names |= G.used_names(ast[2])
        atoms = {}

        def collect(nd):
            if nd[0] in ("call", "var", "bq"):
                atoms.setdefault(A.call_name(nd) if nd[0] != "var" else nd[1], nd)
            if nd[0] == "bin":
                collect(nd[2]); collect(nd[3])
            elif nd[0] == "un":
                collect(nd[2])

        collect(ast)
        for f in factors:
            names |= G.used_names(atoms[f]) if f in atoms else {f}
    except A.Undefined:
        names = G.used_names(ast)
    return sorted(c for c in names if c in columns)


def judge(case, m):
    import formulae

    df, meta = D.case_frame(case["frame"])
    text = D.formula_text(case)
    if case.get("cancelled"):
        # a term that is added and removed again: its variable is not used by the model
        text = text + f" + {case['cancelled']} - {case['cancelled']}"
    ns = D.namespace(meta)
    # used columns from the reference grammar
    used = used_columns(text, df.columns)
    rng = np.random.default_rng(case["frame"]["seed"] + 9)
    pat = case["pattern"]
    n = len(df)
    numeric_used = [c for c in used if meta[c]["kind"] in ("num", "pos")]
    other_used = [c for c in used if c not in numeric_used]

    def blank(col, rows):
        kind = meta[col]["kind"]
        # nullable extension dtypes keep their dtype in half of the frames (the missing value is then pd.NA, and
        # dtype.kind of the column is that of its payload: 'i', 'f', 'b'); plain int / bool columns become
        # nullable Int64 / boolean in a third of the frames, float otherwise
        keep = (case["frame"]["seed"] + len(col)) % 2 == 0
        to_nullable = (case["frame"]["seed"] + len(col)) % 3 == 0
        if kind in ("nint", "nfloat") and keep:
            df.loc[df.index[rows], col] = pd.NA
            m.note("missing-as-pd.NA:" + str(df[col].dtype))
            return
        if kind in ("int", "bool") and to_nullable:
            df[col] = df[col].astype("Int64" if kind == "int" else "boolean")
            df.loc[df.index[rows], col] = pd.NA
            m.note("missing-as-pd.NA:" + str(df[col].dtype))
            return
        if kind in ("int", "code", "bool", "nint", "nfloat"):
            df[col] = df[col].astype(float)
        if isinstance(df[col].dtype, pd.CategoricalDtype):
            df[col] = df[col].astype(object).where(~df.index.isin(df.index[rows]), other=np.nan).astype(df[col].dtype)
        else:
            df.loc[df.index[rows], col] = np.nan

    if pat == "one-cell" and used:
        pool = numeric_used if (case["policy"] == "pass" or not other_used or rng.random() < 0.5) and numeric_used else used
        blank(pool[int(rng.integers(0, len(pool)))], [int(rng.integers(0, n))])
    elif pat == "several" and used:
        pool = numeric_used if case["policy"] == "pass" else used
        for col in (rng.choice(pool, size=min(len(pool), int(rng.integers(1, 4))), replace=False) if pool else []):
            blank(str(col), rng.choice(n, size=min(n - 1, int(rng.integers(1, 4))), replace=False))
    elif pat == "column-but-two" and n > 3 and (numeric_used if case["policy"] == "pass" else used):
        pool = numeric_used if case["policy"] == "pass" else used
        blank(pool[int(rng.integers(0, len(pool)))], np.arange(2, n))
    if case.get("cancelled") and case["cancelled"] not in used:
        blank(case["cancelled"], rng.choice(n, size=max(1, n // 3), replace=False))
    if pat == "whole-column" and numeric_used:
        # a frame of future observations: one used numeric variable (often the response) is missing on EVERY row
        blank(numeric_used[int(rng.integers(0, len(numeric_used)))], np.arange(n))
    if pat == "infinities":
        # +inf and -inf are values, not missing ones - also when both occur in one row
        floats = [c for c in numeric_used if str(df[c].dtype) == "float64"]
        if len(floats) >= 2:
            r = int(rng.integers(0, n))
            df.loc[df.index[r], floats[0]] = np.inf
            df.loc[df.index[r], floats[1]] = -np.inf
        elif floats:
            rows2 = rng.choice(n, size=min(n, 2), replace=False)
            df.loc[df.index[rows2[0]], floats[0]] = np.inf
            df.loc[df.index[rows2[-1]], floats[0]] = -np.inf
    if pat == "only-unused":
        for col in [c for c in df.columns if c not in used and meta.get(c, {}).get("kind") in ("num", "pos", "str")][:3]:
            blank(col, rng.choice(n, size=max(1, n // 2), replace=False))
    # the row filter must be positional: arbitrary (non-unique, non-sorted, non-integer) index
    idx_kind = int(rng.integers(0, 4))
    if idx_kind == 1:
        lab = np.repeat(np.arange((n + 1) // 2), 2)[:n]
        rng.shuffle(lab)
        df.index = pd.Index(lab)
    elif idx_kind == 2:
        df.index = pd.Index([f"r{(i * 5) % max(1, n // 2)}" for i in range(n)])
    elif idx_kind == 3:
        df.index = pd.RangeIndex(n - 1, -1, -1)
    case = {**case, "text": text, "used": used, "index_kind": idx_kind}
    m.current_case = case
    complete = df[used].notna().all(axis=1).to_numpy() if used else np.ones(n, bool)
    policy = case["policy"]
    orig = attach.ORIG["design_matrices"]
    if not complete.any():
        # no complete row is left: "the data with those rows removed" is an empty frame, which
        # design_matrices refuses by itself; nothing to compare for 'drop' / 'error'. 'pass' keeps every row.
        if policy == "pass" and case.get("profile") == "plain":
            m.ev("pass-keeps-rows")
            try:
                dmp = formulae.design_matrices(text, df, na_action="pass", extra_namespace=ns)
                part = dmp.common if dmp.common is not None else dmp.group
                if part is not None and np.asarray(part.design_matrix).shape[0] != n:
                    m.violation("pass-keeps-rows", f"no row is complete in {used}: 'pass' kept {np.asarray(part.design_matrix).shape[0]} of {n} rows",
                                case=case, key="pass:row-count")
            except ValueError as e:
                if "missing" in str(e).lower() or "incomplete" in str(e).lower():
                    m.violation("pass-keeps-rows", f"no row is complete in {used}: 'pass' refused the frame: {e}", case=case, key="pass:refused-all-incomplete")
                else:
                    m.note("pass-all-incomplete-raised:ValueError")
            except Exception as e:
                m.note("pass-all-incomplete-raised:" + type(e).__name__)
        m.note("no-complete-row-not-judged")
        return

    def shadow(frame, na="drop"):
        with core.shadow():
            return orig(text, frame, na, 0, ns)

    if policy not in ("drop", "error", "pass"):
        m.ev("other-policy-refused")
        try:
            formulae.design_matrices(text, df, na_action=policy, extra_namespace=ns)
            m.violation("other-policy-refused", f"na_action={policy!r} accepted", case=case, key="accepts-policy")
        except Exception:
            pass
        return
    # reference: the same call on the complete rows only
    # (only the used columns are handed over, so that the reference cannot depend on how unused
    # columns are treated)
    try:
        ref = sig(shadow(df.loc[complete, used] if used else df[complete]))
    except Exception as e:
        ref = ("raise", type(e).__name__)
    try:
        dm = formulae.design_matrices(text, df, na_action=policy, extra_namespace=ns)
        got = sig(dm)
    except Exception as e:
        dm, got = None, ("raise", type(e).__name__, str(e))
    m.cls("policy:" + policy, "pattern:" + pat, "missing-used:%s" % (not complete.all()))
    if policy == "drop":
        m.ev("drop-equals-complete-rows")
        if isinstance(ref, tuple) or isinstance(got, tuple):
            if isinstance(ref, tuple) != isinstance(got, tuple):
                m.violation("drop-equals-complete-rows", f"drop: {got if isinstance(got, tuple) else 'returns'} but on the "
                            f"complete rows alone: {ref if isinstance(ref, tuple) else 'returns'}", case=case, key="drop:raises")
            else:
                m.note("both-raise")
            return
        d = diff(ref, got)
        if d:
            m.violation("drop-equals-complete-rows", f"{int((~complete).sum())} incomplete rows in {used}: {d}", case=case,
                        key="drop:" + d.split(":")[0])
        # counted independently of any second run of the library: one row per complete row
        rows_kept = np.asarray((dm.common if dm.common is not None else dm.group).design_matrix).shape[0] \
            if (dm.common is not None or dm.group is not None) else None
        if rows_kept is not None and rows_kept != int(complete.sum()):
            m.violation("drop-equals-complete-rows", f"{int(complete.sum())} rows are complete in {used} (pattern {pat}) but the design has "
                        f"{rows_kept} rows", case=case, key="drop:row-count")
        return
    if policy == "error":
        m.ev("error-iff-incomplete")
        if not complete.all():
            if not (isinstance(got, tuple) and got[1] == "ValueError"):
                m.violation("error-iff-incomplete", f"incomplete rows in {used} but the call {'raised ' + got[1] if isinstance(got, tuple) else 'returned'}",
                            case=case, key="error:not-refused")
        else:
            if isinstance(got, tuple) and not isinstance(ref, tuple):
                m.violation("error-iff-incomplete", f"no row is incomplete in {used} but the call raised {got[1]}: {got[2]}",
                            case=case, key="error:refused-complete")
            elif not isinstance(got, tuple) and not isinstance(ref, tuple):
                d = diff(ref, got)
                if d:
                    m.violation("error-iff-incomplete", f"complete data, error vs drop: {d}", case=case, key="error:" + d.split(":")[0])
        return
    # pass
    judged = case.get("profile") == "plain" and all(meta[c]["kind"] in ("num", "pos") or df[c].notna().all() for c in used)
    m.ev("pass-keeps-rows", applicable=judged)
    if not judged:
        m.note("pass-not-judged")
        return
    if isinstance(got, tuple):
        if isinstance(ref, tuple):
            m.note("both-raise")
        else:
            m.violation("pass-keeps-rows", f"pass raised {got[1]}: {got[2]}", case=case, key="pass:raises")
        return
    # expected: design of the frame with the holes filled; NaN where the row misses a variable of the term
    filled = df.copy()
    for c in numeric_used:
        filled[c] = filled[c].fillna(0.731)
    try:
        F = shadow(filled)
    except Exception as e:
        m.note("filled-frame-raised:" + type(e).__name__)
        return
    atoms = {}
    for t in case["terms"] + [g["factor"] for g in case.get("group", [])] + \
            [g["effect"] for g in case.get("group", []) if g["effect"] != "1"]:
        for a in t:
            at = D.atom(a, meta)
            atoms[at.name] = at
    miss = {c: df[c].isna().to_numpy() for c in numeric_used}

    def expected(part, fpart, is_group):
        X = np.asarray(fpart.design_matrix, dtype=float).copy()
        for name, term in part.terms.items():
            sl = fpart.slices[name]
            comps = []
            if is_group:
                comps = list(getattr(term.expr, "components", [])) + list(term.factor.components)
            else:
                comps = list(getattr(term, "components", []))
            vars_ = set()
            for c in comps:
                at = atoms.get(str(c.name))
                vars_.update(at.vars if at is not None else [str(c.name)])
            rows = np.zeros(len(df), bool)
            for v in vars_:
                if v in miss:
                    rows |= miss[v]
            X[rows, sl] = np.nan
        return X

    problems = []
    for nm, part, fpart in (("common", dm.common, F.common), ("group", dm.group, F.group)):
        if part is None:
            continue
        want = expected(part, fpart, nm == "group")
        have = np.asarray(part.design_matrix, dtype=float)
        if have.shape != want.shape:
            problems.append(f"{nm}: shape {have.shape}, all {len(df)} rows expected ({want.shape})")
        elif not np.allclose(have, want, rtol=1e-10, atol=1e-12, equal_nan=True):
            nan_mismatch = (np.isnan(have) != np.isnan(want)).any()
            problems.append(f"{nm}: " + ("NaN pattern differs from 'exactly the columns derived from the missing variable'"
                                         if nan_mismatch else "values of complete cells differ"))
    if dm.response is not None:
        r = np.asarray(dm.response.design_matrix, dtype=float)
        if r.shape[0] != len(df):
            problems.append("response: rows dropped under pass")
    for p in problems:
        m.violation("pass-keeps-rows", p, case=case, key="pass:" + p.split(":")[0])


def judge_sequence(case, m):
    """One caller-owned frame object holding ONLY the used columns, handed to design_matrices several times:
    drop, error, pass, then an in-place change of missingness, then again - every call must behave as if it
    were the first one and must leave the frame alone."""
    import formulae

    df0, meta = D.case_frame(case["frame"])
    text = D.formula_text(case)
    ns = D.namespace(meta)
    used = used_columns(text, df0.columns)
    numeric_used = [c for c in used if meta[c]["kind"] in ("num", "pos")]
    if not used or not numeric_used:
        return
    rng = np.random.default_rng(case["frame"]["seed"] + 99)
    frame = df0[used].copy()
    n = len(frame)
    col = numeric_used[int(rng.integers(0, len(numeric_used)))]
    rows = rng.choice(n, size=min(n - 1, 2), replace=False)
    frame.loc[frame.index[rows], col] = np.nan
    case = {**case, "text": text, "sequence": True}
    m.current_case = case
    orig = attach.ORIG["design_matrices"]

    def fresh(policy, fr):
        with core.shadow():
            try:
                return sig(orig(text, fr.copy(), policy, 0, ns))
            except Exception as e:
                return ("raise", type(e).__name__)

    def live(policy):
        try:
            return sig(formulae.design_matrices(text, frame, na_action=policy, extra_namespace=ns))
        except Exception as e:
            return ("raise", type(e).__name__)

    def same(a, b):
        if isinstance(a, tuple) or isinstance(b, tuple):
            return isinstance(a, tuple) and isinstance(b, tuple) and a[1] == b[1]
        return diff(a, b) is None

    # the whole plan, with the expected outcome of every step computed FIRST on private copies, so that no
    # monitor-made call sits between two consecutive calls on the caller's frame object
    plan = [("drop", None), ("error", None), ("pass", None), ("drop", None),
            ("error", "repair"), ("drop", None), ("error", "break"), ("drop", None)]
    state = frame.copy()
    wants = []
    for policy, change in plan:
        if change == "repair":
            state.loc[state.index[rows], col] = 0.25
        elif change == "break":
            state.loc[state.index[rows[:1]], col] = np.nan
        wants.append(fresh(policy, state))
    for step, (policy, change) in enumerate(plan):
        if change == "repair":
            frame.loc[frame.index[rows], col] = 0.25  # repaired in place: complete now
        elif change == "break":
            frame.loc[frame.index[rows[:1]], col] = np.nan  # broken again in place
        before = frame.copy()
        want = wants[step]
        got = live(policy)
        m.ev("same-object-sequence")
        if not same(want, got):
            m.violation("same-object-sequence", f"step {step} ({policy}{', after an in-place ' + change if change else ''}) on the same frame object: "
                        f"{got if isinstance(got, tuple) else 'returns'} but a first call on an equal frame "
                        f"{want if isinstance(want, tuple) else 'returns'}" + ("" if isinstance(got, tuple) or isinstance(want, tuple) else ": " + str(diff(want, got))),
                        case=case, key="sequence:" + policy)
        if not before.equals(frame) or list(before.columns) != list(frame.columns) or len(before) != len(frame):
            m.violation("same-object-sequence", f"step {step} ({policy}): the caller's frame was changed", case=case, key="sequence:frame-changed")
            frame.loc[:, :] = before


def run_shard(i, n, tier, seed, m):
    rng = random.Random(seed * 1000003 + i * 29 + 9)
    ncases = (2400 if tier == "quick" else 30000) // n
    patterns = ["none", "one-cell", "one-cell", "several", "several", "column-but-two", "only-unused", "infinities", "whole-column"]
    for k in range(ncases):
        profile = "plain" if k % 3 != 2 else "stateful"
        case = D.random_case(rng, profile=profile, hostile=(k % 5 == 0), group_p=0.4, min_rows=4)
        case["resp"] = rng.choice(["y", "y", "yb", "cnt", None]) if case["resp"] else None
        for policy in ("drop", "error", "pass"):
            c = dict(case)
            c["policy"] = policy
            c["pattern"] = rng.choice(patterns)
            text = D.formula_text(c)
            m.case({**c, "text": text}, canon=[text, c["frame"]["seed"], c["pattern"], policy], nontrivial=c["pattern"] not in ("none", "only-unused"))
            judge(c, m)
        if k % 4 == 1:
            c = dict(case)
            c["policy"] = rng.choice(["drop", "error"])
            c["pattern"] = rng.choice(["none", "one-cell"])
            c["cancelled"] = rng.choice(["cnt", "w", "z", "x"])
            text = D.formula_text(c) + " (+ cancelled " + c["cancelled"] + ")"
            m.case({**c, "text": text}, canon=[text, c["frame"]["seed"], c["pattern"], c["policy"]], nontrivial=True)
            judge(c, m)
        if k % 5 == 2:
            m.case({**case, "text": D.formula_text(case), "sequence": True}, canon=["sequence", D.formula_text(case), case["frame"]["seed"]], nontrivial=True)
            judge_sequence(dict(case), m)
        if k % 10 == 0:
            c = dict(case)
            c["policy"] = rng.choice(["Drop", "omit", "", "raise", "ignore", "DROP", "none"])
            c["pattern"] = "none"
            m.case({**c, "text": D.formula_text(c)}, canon=[D.formula_text(c), c["policy"]])
            judge(c, m)


def replay(rec, m):
    if rec["case"].get("sequence"):
        judge_sequence(rec["case"], m)
    else:
        judge(rec["case"], m)
