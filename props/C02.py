"""C02 - term algebra = Wilkinson-Rogers / lme4 set semantics.

Deciding monitor (boundary): post-condition on model_description(formula):
  algebra-equals-reference   (response, set of common terms, set of group terms) equals the
                             reference expansion under the ordered OR the set identity of terms
  duplicate-free             no term occurs twice in either list
  returns-model              a formula of the judged language does not raise
"""
import itertools
import random

from fmon import core, attach
from fmon.ref import grammar as G
from fmon.ref import algebra as A

PROP = "C02"
DECIDING = ["algebra-equals-reference", "duplicate-free", "returns-model", "description-depends-on-text-only"]

ATOMS6 = ["a", "b", "c", "f(x)", "f(x, 2)", 'g("s")', "f(h(x))", "f(x, k=1)", "f(x, k=2)"]
ATOMS3 = ["a", "b", "f(x, 2)"]
ATOMS2 = ["a", "b"]
OPS = ["+", "-", ":", "*", "/"]


def spec(tier):
    return {
        "level": "exploration",
        "deciding": DECIDING,
        "timeout": 900 if tier == "quick" else 7200,
        "exhaustive": True,
        "rule": (
            "exhaustive operator trees with + - : * / over atoms {a b c f(x) f(x, 2) g(\"s\") f(h(x))} up to 3 leaves, "
            "over {a b f(x, 2)} with 4 leaves (thorough: {a b} with 5 leaves), every tree also under **n "
            "(n in 1..3) at the root and at one inner node; each tree embedded as `T`, `y ~ T`, with the "
            "intercept literals in every documented position (0 + T, T - 1, T + 0, -1 + T, T + 1, 0 + T + 1) "
            "and on either side of ( | ) with grouping expressions g, g + h, g:h, g/h, g*h, f(x); plus "
            "seeded random deeper trees (depth <= 6). distinct = distinct formula texts; non-trivial = at "
            "least one operator besides ~."
        ),
        "assumptions": [
            "reference algebra fmon/ref/algebra.py encodes the statement's expansion rules",
            "a case is a violation only if the real result differs from the reference under BOTH the ordered and the set identity of terms",
            "intercept literals outside the documented positions, nested |, numeric literals other than exponents: executed, not judged",
        ],
        "classify": classify,
    }


def has_node(ast, pred):
    if pred(ast):
        return True
    k = ast[0]
    if k == "bin":
        return has_node(ast[2], pred) or has_node(ast[3], pred)
    if k in ("un", "kw"):
        return has_node(ast[2], pred)
    if k == "call":
        return any(has_node(x, pred) for x in ast[2])
    return False


def classify(v):
    """No known findings for C02: every mechanism found so far has been repaired in /repo."""
    return v.get("key")


# ---------------------------------------------------------------------------------------------
def judge(text, m, origin="enum"):
    import formulae

    case = {"text": text, "origin": origin}
    try:
        ast = G.parse(text)
    except (G.NotSentence, RecursionError):
        m.note("generator-produced-nonsentence")
        return
    ref = {}
    try:
        for ident in ("ordered", "set"):
            ref[ident] = A.Algebra(ident).model(ast)
        defined = True
    except A.Undefined as e:
        defined = False
        m.note("undefined:" + str(e)[:50])
    try:
        model = formulae.model_description(text)
        real_exc = None
    except Exception as e:
        model, real_exc = None, e
    m.ev("returns-model", applicable=defined)
    if not defined:
        m.cls("not-judged")
        return
    if real_exc is not None:
        m.violation("returns-model", f"{type(real_exc).__name__}: {real_exc}", case=case,
                    key="raises:" + type(real_exc).__name__)
        return
    m.ev("algebra-equals-reference")
    m.ev("duplicate-free")
    agree = []
    for ident in ("ordered", "set"):
        r_resp, r_common, r_group = A.real_keys(model, ident)
        e_resp, e_common, e_group = ref[ident]
        agree.append(r_resp == e_resp and set(r_common) == set(e_common) and set(r_group) == set(e_group))
    if not any(agree):
        r = A.real_keys(model, "ordered")
        e = ref["ordered"]
        miss = [k for k in e[1] + e[2] if k not in r[1] + r[2]]
        extra = [k for k in r[1] + r[2] if k not in e[1] + e[2]]
        m.violation("algebra-equals-reference",
                    f"response {r[0]!r} vs {e[0]!r}; missing {miss}; unexpected {extra}",
                    case=case, key="expansion-differs")
    elif agree[0] != agree[1]:
        m.note("order_ambiguous")
    r = A.real_keys(model, "ordered")
    if len(set(r[1])) != len(r[1]) or len(set(r[2])) != len(r[2]):
        m.violation("duplicate-free", f"duplicates in {r[1]} / {r[2]}", case=case, key="duplicate-terms")
    # structural classes
    ops = set()

    def walk(n):
        if n[0] == "bin":
            ops.add(n[1]); walk(n[2]); walk(n[3])
        elif n[0] == "un":
            walk(n[2])
    walk(ast)
    m.cls(*("op:" + o for o in ops))


def observe(text, m):
    """Undocumented placements: executed and counted, never judged."""
    import formulae

    try:
        formulae.model_description(text)
        m.note("hostile-accepted")
    except Exception as e:
        m.note("hostile-raised:" + type(e).__name__)


def trees(nleaves, atoms):
    """All texts of operator trees with exactly nleaves leaves (fully parenthesised operands)."""
    if nleaves == 1:
        for a in atoms:
            yield a
        return
    for k in range(1, nleaves):
        for l in trees(k, atoms):
            for r in trees(nleaves - k, atoms):
                for op in OPS:
                    lt = l if k == 1 else f"({l})"
                    rt = r if nleaves - k == 1 else f"({r})"
                    yield f"{lt} {op} {rt}"


def embeddings(t, idx):
    """The tree `t` in every documented context.  `idx` thins the expensive ones."""
    p = f"({t})"
    yield t
    yield f"y ~ {t}"
    yield f"y ~ 0 + {p}"
    yield f"y ~ {p} - 1"
    yield f"y ~ {p} + 0"
    yield f"y ~ -1 + {p}"
    yield f"y ~ {p} + 1"
    yield f"y ~ 0 + {p} + 1"
    yield f"y ~ ({t} | g)"
    yield f"y ~ (0 + {p} | g)"
    yield f"y ~ (1 + {p} | g)"
    yield f"y ~ (-1 + {p} | g)"
    # the removal as a later additive item of the effect side
    yield f"y ~ ({p} - 1 | g)"
    yield f"y ~ ({p} + 0 | g)"
    yield f"y ~ ({t} + -1 | g)"
    yield f"y ~ (z + 0 + {p} | g + h)"
    yield f"y ~ (1 + {p} - 1 | g)"
    yield f"y ~ ({p} + 1 | g)"
    yield f"y ~ z + ({t} | g + h)"
    yield f"y ~ ({t} | g:h)"
    yield f"y ~ ({t} | g/h)"
    yield f"y ~ (0 + {p} | g*h)"
    yield f"y ~ ({t} | f(x))"
    yield f"y ~ (z | {t})"
    yield f"y ~ (1 | {t})"
    yield f"y ~ (0 + z | {t})"
    for n in (1, 2, 3):
        yield f"y ~ {p}**{n}"
    yield f"y ~ {p}**2 - 1 + (1 | g)"
    yield f"y ~ c:{p}**2"
    yield f"y ~ ({p}**2 | g)"


N_SMALL = len(ATOMS6) + 5 * len(ATOMS6) ** 2 + 2 * 25 * len(ATOMS6) ** 3


def all_cases(tier):
    for n in (1, 2, 3):
        for t in trees(n, ATOMS6):
            yield t
    for t in trees(4, ATOMS3):
        yield t
    if tier == "thorough":
        for t in trees(5, ATOMS2):
            yield t


def rand_tree(rng, depth):
    """(text, upper bound on the number of terms of the LARGEST intermediate expansion)."""
    t, size, cost = _rand_tree(rng, depth)
    return t, cost


def _rand_tree(rng, depth):
    if depth <= 0 or rng.random() < 0.25:
        return rng.choice(ATOMS6 + ["d", "e", "np.log(x)", "`q q`", "h(x, k=1)"]), 1, 1
    r = rng.random()
    if r < 0.12:
        t, b, c = _rand_tree(rng, depth - 1)
        e = rng.choice([1, 2, 2, 3, 4])
        return f"({t})**{e}", b ** e, max(c, b ** e)
    op = rng.choice(OPS + ["+", ":"])
    (lt, lb, lc), (rt, rb, rc) = _rand_tree(rng, depth - 1), _rand_tree(rng, depth - 1)
    size = {"+": lb + rb, "-": lb, ":": lb * rb, "*": lb + rb + lb * rb, "/": lb + rb}[op]
    return f"({lt}) {op} ({rt})", size, max(size, lc, rc)


def run_shard(i, n, tier, seed, m):
    # histories FIRST (a bounded cache would be full later): describe, build a design from the same text
    # (which inserts helper terms into ITS model), describe again - a description depends on the text only
    core.guarded(history_driver)(m, random.Random(seed * 1000003 + i * 7 + 3), (300 if tier == "quick" else 6000) // n)
    k = -1
    for t in all_cases(tier):
        k += 1
        if k % n != i:
            continue
        emb = list(embeddings(t, k))
        if tier == "quick" and k >= N_SMALL:
            # 4-leaf trees: `T`, `y ~ T` and a rotating quarter of the other contexts
            emb = emb[:2] + [e for j, e in enumerate(emb[2:]) if (j + k) % 4 == 0]
        elif tier == "quick" and k >= len(ATOMS6) + 5 * len(ATOMS6) ** 2:
            # 3-leaf trees: a rotating half of the contexts
            emb = emb[:2] + [e for j, e in enumerate(emb[2:]) if (j + k) % 2 == 0]
        for j, text in enumerate(emb):
            m.cases += 1
            m.distinct_count_only += 1
            m.current_case = {"text": text}
            if len(m.samples) < 4 and (k // n) % 997 == 0 and j in (1, 9):
                m.samples.append({"text": text, "origin": "enum"})
            judge(text, m)
    rng = random.Random(seed * 1000003 + i * 7 + 2)
    nrand = (40000 if tier == "quick" else 1000000) // n
    for _ in range(nrand):
        t, bound = rand_tree(rng, rng.choice([2, 3, 4, 5, 6]))
        if bound > 16:  # expansions (and the **3 / | embeddings on top) are exponential: keep cases small
            m.note("random-tree-too-large-skipped")
            continue
        emb = list(embeddings(t, 0))
        text = rng.choice(emb)
        m.case({"text": text, "origin": "random"}, canon=text, nontrivial=True)
        judge(text, m, origin="random")
    if i == 0:
        # hostile / undocumented placements: executed and counted, never judged
        for text in ["y ~ a - 0", "y ~ a + (0 + b)", "y ~ (a - 1 + 1 | g)", "y ~ a:(b - 1)",
                     "y ~ (1 + 0 + a | g)", "y ~ (a | g | h)", "y ~ a | g", "y ~ 2", "y ~ a:2",
                     "y ~ (0 | g)", "y ~ a ** b", "y ~ (a + b) ** 0", "a + b ~ c", "a:b ~ c"]:
            m.case({"text": text, "origin": "hostile"}, canon=text)
            observe(text, m)


def history_driver(m, rng, count):
    import formulae
    import numpy as np
    import pandas as pd

    g = np.random.default_rng(2)
    n = 24
    df = pd.DataFrame({"y": g.normal(size=n), "x": g.normal(size=n)})
    for j, nm in enumerate("abcde"):
        lv = [f"{nm}{q}" for q in range(2 + j % 2)]
        df[nm] = pd.Series([lv[q % len(lv)] for q in g.permutation(n)], dtype="str")
    plain = ["a", "b", "c", "d", "e", "x"]
    for _ in range(count):
        k = rng.choice([2, 3, 3, 4])
        atoms = rng.sample(plain, k)
        nodes = [(a, True) for a in atoms]
        while len(nodes) > 1:
            j = rng.randrange(len(nodes) - 1)
            (l, la), (r, ra) = nodes[j], nodes[j + 1]
            op = rng.choice(["+", ":", "*", "/", ":"])
            nodes[j : j + 2] = [(f"{l if la else '(' + l + ')'} {op} {r if ra else '(' + r + ')'}", False)]
        text = ("y ~ " if rng.random() < 0.8 else "") + rng.choice(["", "0 + "]) + nodes[0][0]
        case = {"text": text, "origin": "history"}
        m.case(case, canon=["history", text], nontrivial=True)
        m.ev("description-depends-on-text-only")
        try:
            ast = G.parse(text)
            want = [A.Algebra(ident).model(ast) for ident in ("ordered", "set")]
        except (G.NotSentence, A.Undefined):
            continue
        sigs = []
        for step in ("describe", "design", "describe", "describe"):
            try:
                if step == "design":
                    formulae.design_matrices(text, df)
                    continue
                sigs.append(A.real_keys(formulae.model_description(text), "ordered"))
            except Exception as e:
                sigs.append(("raise", type(e).__name__))
        if any(s_ != sigs[0] for s_ in sigs[1:]):
            m.violation("description-depends-on-text-only", f"{text!r}: described as {sigs[0]} at first, as {sigs[-1]} after a design was built from the same text",
                        case=case, key="history:description-changed")
        elif not isinstance(sigs[0], tuple) or sigs[0][0] == "raise":
            pass
        else:
            r = sigs[0]
            e = want[0]
            if not (r[0] == e[0] and set(r[1]) == set(e[1]) and set(r[2]) == set(e[2])):
                e2 = want[1]
                r2 = A.real_keys(formulae.model_description(text), "set")
                if not (set(r2[1]) == set(e2[1]) and set(r2[2]) == set(e2[2])):
                    m.violation("algebra-equals-reference", f"{text!r}: {r} vs {e}", case=case, key="expansion-differs")


def replay(rec, m):
    judge(rec["case"]["text"], m, origin="replay")
