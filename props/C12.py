"""C12 - call terms evaluate like the Python expression they spell.

Deciding monitor (boundary): for a generated call text t, design_matrices("y ~ " + t) versus Python's
own eval(t) over the same names:
  value-equals-python-eval   the column(s) of the term equal eval(t) (NaN aware); the argument logs of
                             recording callables (positional values, keyword names and values, types
                             of literals) are equal; {e} is exactly I(e)
  name-is-normalised-source  whitespace variants give the identical term name; the name has single
                             spaces around binary operators, ', ' between arguments, k=v, the sign
                             attached, string lexemes with their own quote style; read back by
                             Python's ast the name denotes the same expression as the source text
  different-calls-different-terms   texts whose Python ASTs differ give different names and, written in
                             one formula, two terms / two columns; equal names imply equal values
"""
import ast
import random
import re

import numpy as np
import pandas as pd

from fmon import core, attach

PROP = "C12"
DECIDING = ["value-equals-python-eval", "name-is-normalised-source", "different-calls-different-terms"]

STRING_RE = re.compile("'[^']*'|\"[^\"]*\"")
PREC = {"cmp": 1, "+": 2, "-": 2, "*": 3, "/": 3, "u": 4, "**": 5}
CMPS = ["==", "!=", "<", "<=", ">", ">="]


def spec(tier):
    return {
        "level": "exploration",
        "deciding": DECIDING,
        "timeout": 900 if tier == "quick" else 5400,
        "rule": (
            "seeded operator trees to depth 3 (quick) / 5 (thorough) over columns a b c (values in [0.5, 2]), int "
            "and float literals, strings in both quote styles, True / False / None, nested recording calls with "
            "positional and keyword arguments, numpy ufuncs, the operators + - * / **, unary + -, the six "
            "comparisons, with the parentheses Python's precedence needs plus random redundant ones and random "
            "inter-token whitespace; every text is evaluated as I(t) / {t} / rec(t, k=..) and compared with eval(). "
            "Pairs of texts with different Python ASTs are written in one formula. distinct = distinct texts after "
            "whitespace normalisation; non-trivial = at least one operator or nested call."
        ),
        "assumptions": [
            "Python syntax outside the statement's list (% // @ not and or, chained comparisons, subscripts, lists, attribute values, exponent/hex number syntax) is not generated",
            "whether REDUNDANT parentheses survive in a term name is not judged",
        ],
        "classify": lambda v: v.get("key"),
    }


# ---------------------------------------------------------------------------------------------
# expression trees -> text with Python's precedence (+ optional redundant parentheses)
# ---------------------------------------------------------------------------------------------
def gen(rng, depth, allow_cmp=True):
    r = rng.random()
    if depth <= 0 or r < 0.2:
        c = rng.random()
        if c < 0.5:
            return ("name", rng.choice(["a", "b", "c"]))
        if c < 0.7:
            return ("num", rng.choice(["1", "2", "3", "0.5", "2.0", "1.5", "10", "0.25", "9007199254740993", "123456789.25"]))
        if c < 0.75:
            return ("py", rng.choice(["True", "False"]))
        return ("name", rng.choice(["a", "b"]))
    if r < 0.55:
        op = rng.choice(["+", "-", "*", "/", "**", "+", "*", "-"])
        left, right = gen(rng, depth - 1, allow_cmp), gen(rng, depth - 1, allow_cmp)
        if op == "**" and literal_only(right) and (has_pow(right) or big_literal(right)):
            # 10 ** 10 ** 10 / 2 ** 9007199254740993 are exact integers Python would try to compute: keep
            # exponent towers of pure literals out (an exponent that involves a column is a float array)
            right = ("name", rng.choice(["a", "b", "c"]))
        if op == "**" and literal_only(left) and literal_only(right) and (has_pow(left) or big_literal(left)):
            left = ("name", rng.choice(["a", "b", "c"]))
        return ("bin", op, left, right)
    if r < 0.68:
        return ("un", rng.choice("+-"), gen(rng, depth - 1, allow_cmp))
    if r < 0.76 and allow_cmp:
        return ("cmp", rng.choice(CMPS), gen(rng, depth - 1, False), gen(rng, depth - 1, False))
    if r < 0.88:
        return ("call", rng.choice(["np.log", "np.sqrt", "np.abs", "np.exp"]), [gen(rng, depth - 1, allow_cmp)], [])
    nargs = rng.choice([1, 1, 2])
    args = [gen(rng, depth - 1, allow_cmp) for _ in range(nargs)]
    if nargs == 2 and rng.random() < 0.3:
        args[1] = args[0]  # the same expression spelled twice is evaluated twice, like in Python
    kws = []
    for k in rng.sample(["k", "w", "flag"], rng.choice([0, 0, 1, 2])):
        v = rng.random()
        if v < 0.3:
            kws.append((k, ("str", rng.choice(["'u'", '"v w"', "'x:y'", '""', "'it s'", "'Z\u00fcrich'", '"\u00b5g \u212b"']))))
        elif v < 0.45:
            kws.append((k, ("py", rng.choice(["True", "False", "None"]))))
        else:
            kws.append((k, gen(rng, depth - 1, True)))
    return ("call", rng.choice(["r1", "r2"]), args, kws)


def literal_only(n):
    k = n[0]
    if k in ("num", "py", "str"):
        return True
    if k == "name":
        return False
    if k in ("bin", "cmp"):
        return literal_only(n[2]) and literal_only(n[3])
    if k == "un":
        return literal_only(n[2])
    return False


def has_pow(n):
    if n[0] == "bin":
        return n[1] == "**" or has_pow(n[2]) or has_pow(n[3])
    if n[0] in ("un",):
        return has_pow(n[2])
    if n[0] == "cmp":
        return has_pow(n[2]) or has_pow(n[3])
    return False


def big_literal(n):
    if n[0] == "num":
        return float(n[1]) > 64
    if n[0] in ("bin", "cmp"):
        return big_literal(n[2]) or big_literal(n[3])
    if n[0] == "un":
        return big_literal(n[2])
    return False


def prec(n):
    k = n[0]
    if k == "bin":
        return PREC[n[1]]
    if k == "cmp":
        return PREC["cmp"]
    if k == "un":
        return PREC["u"]
    return 9


def text(n, rng=None, extra=0.0, sp=" "):
    def wrap(t, force):
        if force or (rng is not None and rng.random() < extra):
            return "(" + t + ")"
        return t

    k = n[0]
    if k in ("name", "num", "py", "str"):
        return n[1]
    if k == "bin":
        op, l, r = n[1], n[2], n[3]
        p = PREC[op]
        if op == "**":  # right associative; a sign on the left needs parentheses, on the right it does not
            lt = wrap(text(l, rng, extra, sp), prec(l) <= p)
            rt = wrap(text(r, rng, extra, sp), prec(r) < p and r[0] != "un")
        else:
            lt = wrap(text(l, rng, extra, sp), prec(l) < p)
            rt = wrap(text(r, rng, extra, sp), prec(r) <= p)
        return f"{lt}{sp}{op}{sp}{rt}"
    if k == "cmp":
        lt = wrap(text(n[2], rng, extra, sp), prec(n[2]) <= 1)
        rt = wrap(text(n[3], rng, extra, sp), prec(n[3]) <= 1)
        return f"{lt}{sp}{n[1]}{sp}{rt}"
    if k == "un":
        inner = n[2]
        return n[1] + wrap(text(inner, rng, extra, sp), prec(inner) < PREC["u"])
    if k == "call":
        parts = [text(a, rng, extra, sp) for a in n[2]] + [f"{kk}={text(v, rng, extra, sp)}" for kk, v in n[3]]
        return f"{n[1]}({(',' + sp).join(parts)})"
    raise ValueError(k)


def nontrivial(n):
    return n[0] in ("bin", "cmp", "un", "call")


def respace(t, rng):
    """Random whitespace between tokens of a call text (never inside strings or names)."""
    toks = re.findall(r"""'[^']*'|"[^"]*"|\*\*|==|!=|<=|>=|[A-Za-z_][\w.]*|\d+\.\d+|\d+|\S""", t)
    out = []
    for i, tk in enumerate(toks):
        out.append(tk)
        if i + 1 < len(toks):
            nxt = toks[i + 1]
            glue_ok = not (re.match(r"[\w.]", tk[-1]) and re.match(r"[\w.]", nxt[0]))
            out.append(rng.choice(["", " ", "  ", "\t", " \n "]) if glue_ok else rng.choice([" ", "  ", "\t"]))
    return "".join(out)


# ---------------------------------------------------------------------------------------------
# recording callables
# ---------------------------------------------------------------------------------------------
class Rec:
    def __init__(self, name):
        self.name = name
        self.log = []

    def __call__(self, *a, **k):
        self.log.append((tuple(snap(v) for v in a), tuple((kk, snap(v)) for kk, v in k.items())))
        for v in a:
            if isinstance(v, (pd.Series, np.ndarray)):
                return np.asarray(v, dtype=float) * 1.0 + len(self.log) * 0.0
        return np.full(N[0], float(len(a) + len(k)))


N = [8]


def snap(v):
    if isinstance(v, (pd.Series, np.ndarray)):
        arr = np.asarray(v)
        return ("array", str(arr.dtype.kind), tuple(np.round(arr.astype(float), 10).tolist()))
    return ("lit", type(v).__name__, v)


def logs_equal(a, b):
    if len(a) != len(b):
        return False
    for (pa, ka), (pb, kb) in zip(a, b):
        if len(pa) != len(pb) or [k for k, _ in ka] != [k for k, _ in kb]:
            return False
        for x, y in list(zip(pa, pb)) + [(x[1], y[1]) for x, y in zip(ka, kb)]:
            if x[0] != y[0] or x[1] != y[1]:
                return False
            if x[0] == "array":
                if not np.allclose(x[2], y[2], rtol=1e-9, atol=1e-12, equal_nan=True):
                    return False
            elif not (x[2] == y[2] or (x[2] != x[2] and y[2] != y[2])):
                return False
    return True


def frame():
    rng = np.random.default_rng(12)
    n = N[0]
    return pd.DataFrame({"y": rng.normal(size=n), "a": rng.uniform(0.5, 2, n), "b": rng.uniform(0.5, 2, n),
                         "c": rng.uniform(0.5, 2, n)})


def py_eval(t, df):
    r1, r2 = Rec("r1"), Rec("r2")
    env = {"np": np, "r1": r1, "r2": r2, "I": lambda x: x, "a": df["a"], "b": df["b"], "c": df["c"]}
    with np.errstate(all="ignore"):
        try:
            return ("ok", eval(t, {"__builtins__": {}}, env), r1.log + r2.log)
        except Exception as e:
            return ("raise", type(e).__name__, None)


def real_eval(formula, df):
    import formulae

    r1, r2 = Rec("r1"), Rec("r2")
    with np.errstate(all="ignore"):
        try:
            dm = formulae.design_matrices(formula, df, extra_namespace={"r1": r1, "r2": r2})
            return ("ok", dm, r1.log + r2.log)
        except Exception as e:
            return ("raise", type(e).__name__ + ": " + str(e)[:120], None)


def term_names(dm):
    return [t for t in dm.common.terms if t != "Intercept"]


def py_ast_dump(t):
    """ast of the expression with string quote style and redundant parentheses normalised away."""
    return ast.dump(ast.parse(t.replace("{", "I(").replace("}", ")"), mode="eval"))


def canon_tokens(t):
    return [x for x in re.findall(r"""'[^']*'|"[^"]*"|\*\*|==|!=|<=|>=|[A-Za-z_][\w.]*|\d+\.\d+|\d+|\S""", t) if x not in "()"]


def judge(case, m):
    df = frame()
    inner = case["inner"]
    wrapper = case["wrapper"]
    t = {"I": f"I({inner})", "brace": "{" + inner + "}", "rec": f"r1({inner}, k=2)", "bare": inner}[wrapper]
    pytext = t.replace("{", "I(").replace("}", ")")
    case = {**case, "text": t}
    m.current_case = case
    want = py_eval(pytext, df)
    got = real_eval("y ~ " + t, df)
    m.ev("value-equals-python-eval")
    if want[0] == "raise":
        if got[0] == "ok":
            m.note("python-raises-formulae-returns:" + want[1])
        else:
            m.note("both-raise")
        return
    val = want[1]
    if not isinstance(val, (pd.Series, np.ndarray)) or np.asarray(val).dtype.kind not in "fiub":
        m.note("python-value-not-a-numeric-column")
        return
    if got[0] == "raise":
        m.violation("value-equals-python-eval", f"{t!r}: Python evaluates it, design_matrices raised {got[1]}", case=case,
                    key="raises:" + got[1].split(":")[0])
        return
    dm = got[1]
    names = term_names(dm)
    if len(names) != 1:
        m.violation("value-equals-python-eval", f"{t!r}: terms {names}", case=case, key="term-count")
        return
    col = np.asarray(dm.common[names[0]], dtype=float)
    ref = np.asarray(val, dtype=float)
    ref = ref.reshape(len(df), -1) if ref.ndim else np.full((len(df), 1), float(ref))
    if col.shape != ref.shape or not np.allclose(col, ref, rtol=1e-9, atol=1e-12, equal_nan=True):
        m.violation("value-equals-python-eval", f"{t!r}: column {col[:3].ravel().tolist()}..., Python gives {ref[:3].ravel().tolist()}...",
                    case=case, key="value")
    elif not logs_equal(want[2], got[2]):
        m.violation("value-equals-python-eval", f"{t!r}: recording callables saw {got[2][:2]} under formulae, {want[2][:2]} under Python",
                    case=case, key="arguments")
    # names
    name = names[0]
    m.ev("name-is-normalised-source")
    rng = random.Random(case["seed"])
    for _ in range(2):
        variant = respace(t, rng)
        with core.shadow():
            g2 = real_eval("y ~ " + variant, df)
        if g2[0] != "ok" or term_names(g2[1]) != [name]:
            m.violation("name-is-normalised-source", f"{t!r} is named {name!r} but the whitespace variant {variant!r} gives "
                        f"{term_names(g2[1]) if g2[0] == 'ok' else g2[1]}", case={**case, "variant": variant}, key="name:whitespace")
            break
    src = pytext if wrapper != "brace" else pytext
    outside_strings = re.sub(STRING_RE, "S", name)
    if "  " in outside_strings or canon_tokens(name) != canon_tokens(src):
        m.violation("name-is-normalised-source", f"{t!r} is named {name!r}: tokens differ from the source or spacing is not single",
                    case=case, key="name:tokens")
    else:
        canon = " ".join(name.split())
        spaced_ok = re.sub(r"\s*(\*\*|==|!=|<=|>=|[-+*/<>])\s*", lambda mo: mo.group(0), canon) == canon
        try:
            same = py_ast_dump(name) == py_ast_dump(src)
        except SyntaxError:
            same = False
        if not same:
            m.violation("name-is-normalised-source", f"{t!r} is named {name!r}, which read as Python is a different expression",
                        case=case, key="name:different-expression")
    m.cls("wrapper:" + wrapper, "depth:%d" % case["depth"])


def judge_pair(case, m):
    """Two texts with different Python ASTs in one formula: two names, two terms, two columns."""
    df = frame()
    t1, t2 = case["pair"]
    m.current_case = case
    try:
        d1, d2 = py_ast_dump(t1), py_ast_dump(t2)
    except SyntaxError:
        return
    w1, w2 = py_eval(t1, df), py_eval(t2, df)
    if w1[0] != "ok" or w2[0] != "ok":
        return
    m.ev("different-calls-different-terms", applicable=d1 != d2)
    if d1 == d2:
        return
    got = real_eval(f"y ~ {t1} + {t2}", df)
    if got[0] != "ok":
        m.note("pair-raises")
        return
    names = term_names(got[1])
    if len(names) != 2 or len(set(names)) != 2:
        m.violation("different-calls-different-terms", f"{t1!r} and {t2!r} are different calls but the design has terms {names}",
                    case=case, key="pair:merged")
        return
    for nm, w in zip(names, (w1, w2)):
        col = np.asarray(got[1].common[nm], dtype=float).reshape(len(df), -1)
        ref = np.asarray(w[1], dtype=float).reshape(len(df), -1)
        if col.shape != ref.shape or not np.allclose(col, ref, rtol=1e-9, atol=1e-12, equal_nan=True):
            m.violation("different-calls-different-terms", f"in 'y ~ {t1} + {t2}' the column named {nm!r} does not hold its own value",
                        case=case, key="pair:value")


def variants_of(n, rng):
    """Texts that differ from text(n) in the Python AST by a small change."""
    t = text(n)
    out = []
    if n[0] == "bin" and n[2][0] in ("bin",) and n[1] in "+-*/":
        # re-associate: (x op y) op z  vs  x op (y op z)
        l = n[2]
        out.append("I(" + text(("bin", l[1], l[2], ("bin", n[1], l[3], n[3]))) + ")")
    out.append("I(" + t.replace("1", "1.0", 1) + ")" if "1" in t and "1." not in t and "10" not in t else "I(" + t + " + 0)")
    return out


def run_shard(i, n, tier, seed, m):
    rng = random.Random(seed * 1000003 + i * 41 + 12)
    ncases = (5000 if tier == "quick" else 100000) // n
    maxd = 3 if tier == "quick" else 5
    for k in range(ncases):
        depth = rng.randint(1, maxd)
        tree = gen(rng, depth)
        inner = text(tree, rng, extra=rng.choice([0.0, 0.0, 0.15, 0.4]))
        wrapper = rng.choice(["I", "I", "brace", "rec"]) if tree[0] != "call" or rng.random() < 0.6 else "bare"
        case = {"inner": inner, "wrapper": wrapper, "depth": depth, "seed": rng.randrange(10 ** 9)}
        m.case(case, canon=[" ".join(inner.split()), wrapper], nontrivial=nontrivial(tree))
        judge(case, m)
        if k % 4 == 0:
            tree2 = gen(rng, depth)
            t1, t2 = "I(" + text(tree) + ")", "I(" + text(tree2) + ")"
            c2 = {"pair": [t1, t2]}
            m.case(c2, canon=[t1, t2], nontrivial=True)
            judge_pair(c2, m)
            for v in variants_of(tree, rng)[:2]:
                c3 = {"pair": [t1, v]}
                m.case(c3, canon=[t1, v], nontrivial=True)
                judge_pair(c3, m)
    if i == 0:
        core.guarded(judge_rebinding)(m)
    if i == 0:
        fixed = [("I(-a ** 2)", "I((-a) ** 2)"), ("I(2 ** a ** 2)", "I((2 ** a) ** 2)"), ("I(a - (b - 1))", "I(a - b - 1)"),
                 ("I((a + b) * c)", "I(a + b * c)"), ("r1(a, True)", "r1(a, 1)"), ("r1(a, 1)", "r1(a, 1.0)"),
                 ("r1(a, k=1)", "r1(a, k=2)"), ("r1(a, 'u')", "r1(a, \"u\")"), ("r1(a, k='x  y')", "r1(a, k='x y')"),
                 ("r1(a, k=b == c)", "r1(a, k=b != c)"), ("I(a / b / c)", "I(a / (b / c))"), ("r1(r2(a))", "r1(a)"),
                 ("I(-a ** -b)", "I((-a) ** -b)"), ("I(a ** -b ** c)", "I((a ** -b) ** c)"), ("I(+a)", "I(a)"),
                 ("I(- - a)", "I(a)"), ("r1(a, 9007199254740993)", "r1(a, 9007199254740992)"),
                 ("r1(a, 1)", "r1(a, True)"), ("r1(a, 0)", "r1(a, False)"), ("r1(a, False)", "r1(a, 0)"), ("r1(a, 1.0)", "r1(a, 1)"),
                 ("r1(a, k=0)", "r1(a, k=False)"), ("r1(a, k=None)", "r1(a, k=0)"), ("I(-2 ** a)", "I((-2) ** a)"), ("I(a * -3 ** 2)", "I(a * (-3) ** 2)"),
                 ("r1(a, k=18014398509481985)", "r1(a, k=18014398509481984)")]
        for t1, t2 in fixed:
            for t in (t1, t2):
                mo = re.fullmatch(r"I\((.*)\)", t)
                c = {"inner": mo.group(1) if mo else t, "wrapper": "I" if mo else "bare", "depth": 0, "seed": 1}
                m.case(c, canon=[t, "fixed"], nontrivial=True)
                judge(c, m)
            c2 = {"pair": [t1, t2]}
            m.case(c2, canon=[t1, t2, "fixed"], nontrivial=True)
            judge_pair(c2, m)


def judge_rebinding(m):
    """Histories: the same callee text (plain, dotted, twice dotted) is bound to another object in the next
    design; each design must evaluate ITS OWN binding, at build time and on new data."""
    import types
    import formulae

    df = frame()
    new = df.iloc[::-1].reset_index(drop=True)
    mk = lambda c: types.SimpleNamespace(f=lambda v, c=c: np.asarray(v, dtype=float) * c,  # noqa: E731
                                         inner=types.SimpleNamespace(f=lambda v, c=c: np.asarray(v, dtype=float) + c))
    designs = []
    for c in (2.0, 3.0, 5.0):
        ns = {"tools": mk(c), "plain": (lambda v, c=c: np.asarray(v, dtype=float) - c)}
        for text, fn in (("tools.f(a)", lambda d, c=c: d["a"].to_numpy() * c), ("tools.inner.f(b)", lambda d, c=c: d["b"].to_numpy() + c),
                         ("plain(c)", lambda d, c=c: d["c"].to_numpy() - c)):
            case = {"rebinding": [text, c]}
            m.case(case, canon=["rebinding", text, c], nontrivial=True)
            m.ev("value-equals-python-eval")
            try:
                dm = formulae.design_matrices("y ~ " + text, df, extra_namespace=ns)
                got = np.asarray(dm.common[text], dtype=float).reshape(-1)
                if not np.allclose(got, fn(df)):
                    m.violation("value-equals-python-eval", f"{text} with its own binding (factor {c}) evaluates another object's function",
                                case=case, key="rebinding:build")
                designs.append((dm, text, fn, case))
            except Exception as e:
                m.violation("value-equals-python-eval", f"{text}: {type(e).__name__}: {e}", case=case, key="rebinding:raises")
    for dm, text, fn, case in designs:  # earlier designs evaluated after later ones were built
        m.ev("value-equals-python-eval")
        got = np.asarray(dm.common.evaluate_new_data(new)[text], dtype=float).reshape(-1)
        if not np.allclose(got, fn(new)):
            m.violation("value-equals-python-eval", f"{text}: new data is evaluated with another design's binding", case=case, key="rebinding:newdata")


def replay(rec, m):
    case = rec["case"]
    if "pair" in case:
        judge_pair(case, m)
    else:
        judge(case, m)
