"""C14 - stateful transforms satisfy their mathematical contracts.

Intrinsic + trace contracts on the __call__ of the transform classes registered in TRANSFORMS
(fire on direct calls, through design_matrices, and while the repository's tests run):
  center-mean-zero / scale-standardised     first call, input finite and not constant
  same-affine-map                           later calls: y = slope * x + offset with slope / offset
                                            recovered from the FIRST call's input and output
  bs-columns / bs-nonnegative / bs-partition-of-unity
  poly-orthonormal / poly-span / poly-raw-powers
  invalid-parameters-refused                (driver) bad df / degree / knots / bounds raise
"""
import random

import numpy as np
import pandas as pd

from fmon import core, attach
from fmon.ref import space

PROP = "C14"
DECIDING = ["center-mean-zero", "scale-standardised", "same-affine-map", "bs-columns", "bs-nonnegative",
            "bs-partition-of-unity", "poly-orthonormal", "poly-span", "poly-raw-powers", "invalid-parameters-refused"]


def spec(tier):
    return {
        "level": "exploration",
        "deciding": DECIDING,
        "timeout": 900 if tier == "quick" else 5400,
        "w0": True,
        "rule": (
            "seeded numeric vectors (normal, heavy tailed, with ties, large offsets 1e3 +- 3, small n, exactly "
            "zero mean, integer valued) x valid parameter combinations (bs: df 1..10, degree 0..5, intercept, explicit "
            "knots sorted and unsorted, bounds; poly: degree 1..6, raw) with a second call of the same instance on "
            "other data (subset, shifted, single point), several instances per process, direct calls and calls through "
            "design_matrices; invalid parameter combinations must be refused. distinct = distinct (vector seed, "
            "transform, parameters); non-trivial = the vector is not constant."
        ),
        "assumptions": [
            "tolerances: means/sd 1e-9 relative to the data scale, orthonormality 1e-5, span residual 1e-4, non-negativity -1e-12",
            "spline values are judged only for x inside the boundary knots (splev extrapolates outside them)",
        ],
        "classify": lambda v: v.get("key"),
    }


def _arr(x):
    return np.asarray(x, dtype=float)


def _viol(name, detail, key=None):
    core.mon().violation(name, detail, key=(key or name))


def install_contracts(m):
    try:
        from formulae.transforms import TRANSFORMS
    except Exception:
        m.note("attach-missing:TRANSFORMS")
        return
    done = set()

    def wrap(cls, checker, tname):
        if cls in done or getattr(cls, "_fmon_c14", False):
            return
        done.add(cls)
        orig = cls.__call__

        def __call__(self, *a, __orig=orig, **k):
            first = "_fmon_c14_first" not in self.__dict__
            r = __orig(self, *a, **k)
            mm = core.mon()
            mm.attach["transform:" + tname] += 1
            try:
                checker(self, first, a, k, r, mm)
            except Exception as e:  # never raise into the code under observation
                mm.note("contract-error:" + tname + ":" + type(e).__name__)
            return r

        cls.__call__ = __call__
        cls._fmon_c14 = True

    wrap(TRANSFORMS["center"], check_center, "center")
    wrap(TRANSFORMS["scale"], check_scale, "scale")
    wrap(TRANSFORMS["bs"], check_bs, "bs")
    wrap(TRANSFORMS["poly"], check_poly, "poly")


def _usable(x):
    x = _arr(x)
    return x.ndim == 1 and x.size >= 2 and np.all(np.isfinite(x)) and np.ptp(x) > 0


def _affine_first(self, x, y):
    x, y = _arr(x), _arr(y)
    i, j = int(np.argmin(x)), int(np.argmax(x))
    slope = (y[j] - y[i]) / (x[j] - x[i])
    # kept as y = slope * (x - x0) + y0 (well conditioned even when the offset dwarfs the spread)
    self.__dict__["_fmon_c14_first"] = (slope, float(x[i]), float(y[i]))


def _affine_later(self, x, y, mm, what):
    x, y = _arr(x), _arr(y)
    st = self.__dict__.get("_fmon_c14_first")
    if st is None or st is True or x.ndim != 1 or not np.all(np.isfinite(x)):
        return
    slope, x0, y0 = st
    mm.ev("same-affine-map")
    want = slope * (x - x0) + y0
    # round-off of the library's own (x - mean) / sd is about eps * |x| * slope
    tol = 1e-9 * max(1.0, float(np.max(np.abs(want))) if want.size else 1.0) + 1e-13 * abs(slope) * (float(np.max(np.abs(x))) if x.size else 0.0)
    if y.shape != want.shape or not np.allclose(y, want, rtol=1e-9, atol=tol):
        _viol("same-affine-map", f"{what}: a later call is not the affine map of the first call "
              f"(slope {slope:.6g} through ({x0:.6g}, {y0:.6g})); first difference {float(np.max(np.abs(y - want))):.3g}", "affine:" + what)


def check_center(self, first, a, k, r, mm):
    x = a[0] if a else k.get("x")
    if first:
        if not _usable(x):
            self.__dict__["_fmon_c14_first"] = True
            return
        mm.ev("center-mean-zero")
        sc = max(1.0, float(np.max(np.abs(_arr(x)))))
        if abs(float(np.mean(_arr(r)))) > 1e-9 * sc:
            _viol("center-mean-zero", f"mean of center(x) on its training data is {float(np.mean(_arr(r))):.3g}")
        _affine_first(self, x, r)
    else:
        _affine_later(self, x, r, mm, "center")


def check_scale(self, first, a, k, r, mm):
    x = a[0] if a else k.get("x")
    if first:
        if not _usable(x):
            self.__dict__["_fmon_c14_first"] = True
            return
        mm.ev("scale-standardised")
        y = _arr(r)
        sc = max(1.0, float(np.max(np.abs(_arr(x)))) / float(np.std(_arr(x))))
        # a two-pass sd is accurate to about eps * |mean| / sd; a one-pass formula loses eps * (|mean| / sd)**2
        if abs(float(np.mean(y))) > 1e-9 * sc or not abs(float(np.std(y)) - 1.0) <= max(1e-9, 1e-11 * sc):
            _viol("scale-standardised", f"scale(x) on its training data has mean {float(np.mean(y)):.3g} and population sd {float(np.std(y)):.12g}")
        _affine_first(self, x, r)
    else:
        _affine_later(self, x, r, mm, "scale")


def check_bs(self, first, a, k, r, mm):
    names = ["x", "df", "knots", "degree", "intercept", "lower_bound", "upper_bound"]
    args = dict(zip(names, a))
    args.update(k)
    x = _arr(args["x"])
    B = _arr(r)
    if first:
        df, knots = args.get("df"), args.get("knots")
        degree, intercept = args.get("degree", 3), args.get("intercept", False)
        lo = args.get("lower_bound")
        hi = args.get("upper_bound")
        lo = float(np.min(x)) if lo is None else lo
        hi = float(np.max(x)) if hi is None else hi
        # the interior knots this call asks for (explicit, or equally spaced quantiles of the data):
        # coinciding ones (heavy ties) give basis functions with empty support - outside the statement
        try:
            if knots is not None:
                inner = np.sort(np.asarray(knots, dtype=float).ravel())
            else:
                n_inner = df - (degree + 1) + (0 if intercept else 1)
                inner = np.percentile(x, 100 * np.linspace(0, 1, n_inner + 2)[1:-1]) if n_inner > 0 else np.array([])
            degenerate = bool(np.any(np.diff(inner) == 0) or np.any(inner <= lo) or np.any(inner >= hi))
        except Exception:
            degenerate = False
        self.__dict__["_fmon_c14_first"] = (lo, hi, bool(intercept), degenerate)
        mm.ev("bs-columns")
        want = df if df is not None else len(np.atleast_1d(knots)) + degree + (1 if intercept else 0)
        if B.ndim != 2 or B.shape[1] != want or B.shape[0] != x.shape[0]:
            _viol("bs-columns", f"bs(df={df}, knots={None if knots is None else len(np.atleast_1d(knots))}, degree={degree}, "
                  f"intercept={intercept}) returned shape {B.shape}, {want} columns expected")
            return
    st = self.__dict__.get("_fmon_c14_first")
    if not isinstance(st, tuple) or B.ndim != 2:
        return
    lo, hi, intercept, degenerate = st
    if degenerate:
        mm.note("bs-degenerate-knots-not-judged")
        return
    inside = (x >= lo) & (x <= hi) & np.isfinite(x)
    if not inside.any():
        return
    mm.ev("bs-nonnegative")
    if np.any(B[inside] < -1e-12):
        _viol("bs-nonnegative", f"spline basis has the negative value {float(B[inside].min()):.3g} inside the boundary knots")
    mm.ev("bs-partition-of-unity", applicable=intercept)
    sums = B[inside].sum(axis=1)
    if intercept and not np.allclose(sums, 1.0, rtol=0, atol=1e-9):
        _viol("bs-partition-of-unity", f"with intercept=True the basis sums to {float(sums.min()):.6g}..{float(sums.max()):.6g}, not 1")
    if not intercept and (np.any(sums > 1 + 1e-9)):
        _viol("bs-partition-of-unity", f"without intercept the basis sums to {float(sums.max()):.6g} > 1", "bs-partition-of-unity:over")


def check_poly(self, first, a, k, r, mm):
    names = ["x", "degree", "raw"]
    args = dict(zip(names, a))
    args.update(k)
    x = _arr(args["x"])
    if not first:
        return
    self.__dict__["_fmon_c14_first"] = True
    d, raw = args.get("degree", 1), args.get("raw", False)
    P = _arr(r)
    if x.ndim != 1 or not np.all(np.isfinite(x)) or len(np.unique(x)) <= d:
        return
    if not raw and float(np.max(np.abs(x))) > 1e4 * float(np.std(x)):
        # an offset that dwarfs the spread, raised to the d-th power in double precision: the recurrence
        # cannot be orthonormal to the stated tolerance for numerical reasons alone
        mm.note("poly-ill-conditioned-not-judged")
        return
    if not raw:
        zc = (x - x.mean()) / x.std()
        sv = np.linalg.svd(np.column_stack([zc ** j for j in range(d + 1)]), compute_uv=False)
        if sv[-1] <= 1e-7 * sv[0]:
            # (few points, heavy tails, high degree: the powers 1..x^d are numerically dependent)
            mm.note("poly-ill-conditioned-not-judged")
            return
    if P.ndim != 2 or P.shape != (x.shape[0], d):
        _viol("poly-orthonormal", f"poly(degree={d}, raw={raw}) returned shape {P.shape}", "poly-shape")
        return
    V = np.column_stack([x ** j for j in range(1, d + 1)])
    if raw:
        # "exactly those powers": the same numpy operation on the input as given (dtype included)
        xin = np.asarray(args["x"])
        V = np.column_stack([np.power(xin, j) for j in range(1, d + 1)])
        mm.ev("poly-raw-powers")
        if not np.array_equal(P, V):
            _viol("poly-raw-powers", "poly(raw=True) is not exactly x, x^2, ...")
        return
    mm.ev("poly-orthonormal")
    G = P.T @ P
    # (three-term recurrence: round-off grows with the degree and the offset of the data; genuine
    # defects give deviations of order 1e-2 and more)
    if not np.allclose(G, np.eye(d), atol=1e-5) or not np.allclose(P.sum(axis=0), 0, atol=1e-5):
        _viol("poly-orthonormal", f"poly(degree={d}): columns are not orthonormal / orthogonal to the constant "
              f"(max deviation {float(np.max(np.abs(G - np.eye(d)))):.3g}, column sums {float(np.max(np.abs(P.sum(axis=0)))):.3g})")
    mm.ev("poly-span")
    z = (x - x.mean()) / x.std()
    Vz = np.column_stack([np.ones_like(z)] + [z ** j for j in range(1, d + 1)])
    one_P = np.column_stack([np.ones_like(z), P])
    if space.residual_outside(Vz, one_P) > 1e-4 or space.residual_outside(one_P, Vz) > 1e-4:
        _viol("poly-span", f"poly(degree={d}) does not span the same space as 1, x, ..., x^{d}")


def register_hooks(m, foreign=False):
    install_contracts(m)


# ---------------------------------------------------------------------------------------------
# driver
# ---------------------------------------------------------------------------------------------
def vector(rng, kind, n):
    if kind == "normal":
        return rng.normal(size=n)
    if kind == "offset":
        return 1e3 + rng.uniform(-3, 3, size=n)
    if kind == "heavy":
        return rng.standard_t(2, size=n)
    if kind == "ties":
        return rng.integers(0, 5, size=n).astype(float)
    if kind == "zero-mean":
        half = np.arange(1, n // 2 + 1, dtype=float) * 2 - 1
        v = np.concatenate([-half, half] + ([[0.0]] if n % 2 else []))
        rng.shuffle(v)
        return v
    if kind == "int":
        return rng.integers(-20, 20, size=n)
    if kind == "uniform":
        return rng.uniform(0, 1, size=n)
    if kind == "huge-offset":
        return 1e6 * float(rng.choice([1, 10, 100])) + rng.uniform(-1, 1, size=n)
    if kind == "big-int":
        return rng.integers(3_000_000_000, 3_000_000_050, size=n)
    if kind == "wide":
        return rng.uniform(0.5, 9.7, size=n)
    if kind == "tiny-scale":
        return rng.normal(0.0, 1e-10, size=n) + float(rng.choice([0.0, 1e-9]))
    raise ValueError(kind)


KINDS = ["normal", "offset", "heavy", "ties", "zero-mean", "int", "uniform", "huge-offset", "big-int", "wide", "tiny-scale"]


def later_inputs(rng, x):
    x = np.asarray(x, dtype=float)
    n = len(x)
    out = [x[rng.choice(n, size=max(1, n // 3), replace=False)], x + 5.0, x[:1], x[::-1] * 0.5]
    return out


def judge(case, m):
    from formulae.transforms import TRANSFORMS
    import formulae

    rng = np.random.default_rng(case["seed"])
    x = vector(rng, case["kind"], case["n"])
    t = case["transform"]
    p = dict(case["params"])
    m.current_case = case
    if "knots_q" in p:
        q = p.pop("knots_q")
        kn = np.quantile(x, q)
        if p.pop("knots_int", False):
            # integer knots strictly inside a non-integer data range
            ints = sorted({int(v) for v in np.round(kn)} & set(range(int(np.ceil(x.min() + 1e-9)), int(np.floor(x.max() - 1e-9)) + 1)))
            if not ints:
                m.note("no-integer-knot-inside-the-range")
                return
            kn = np.array(ints, dtype=int)
        if p.pop("unsorted", False):
            kn = kn[::-1]
        p["knots"] = kn.tolist() if p.pop("as_list", True) else kn
    if p.pop("series", False):
        xin = pd.Series(x)
    else:
        xin = x
    inst = TRANSFORMS[t]()
    try:
        with np.errstate(all="ignore"):
            inst(xin, **p)
    except Exception as e:
        m.note(f"valid-parameters-raised:{t}:{type(e).__name__}")
        return
    for x2 in later_inputs(rng, x):
        try:
            with np.errstate(all="ignore"):
                inst(pd.Series(x2) if isinstance(xin, pd.Series) else x2, **p)
        except Exception as e:
            m.note(f"later-call-raised:{t}:{type(e).__name__}")
    m.cls("transform:" + t, "vector:" + case["kind"])
    # the same through design_matrices (+ prediction), every few cases
    if case.get("via_design"):
        df = pd.DataFrame({"y": rng.normal(size=len(x)), "x": x})
        kw = ", ".join(f"{k}={v!r}" for k, v in case["params"].items() if k in ("df", "degree", "intercept", "raw"))
        text = f"y ~ {t}(x{', ' if kw else ''}{kw})"
        try:
            dm = formulae.design_matrices(text, df)
            dm.common.evaluate_new_data(df.iloc[: max(1, len(df) // 2)])
        except Exception as e:
            m.note("design-raised:" + type(e).__name__)


INVALID = [
    ("bs", dict(df=2, degree=3), "df too small for the degree"),
    ("bs", dict(df=3, degree=3, intercept=True), "df too small with intercept"),
    ("bs", dict(), "neither df nor knots"),
    ("bs", dict(df=5, degree=-1), "negative degree"),
    ("bs", dict(df=5, degree=2.5), "non-integer degree"),
    ("bs", dict(df=4.5), "non-integer df"),
    ("bs", dict(df=6, knots=[0.1]), "df and knots inconsistent"),
    ("bs", dict(knots=[[0.1, 0.2], [0.3, 0.4]]), "two-dimensional knots"),
    ("bs", dict(knots=[5.0]), "knot above the data"),
    ("bs", dict(knots=[-5.0]), "knot below the data"),
    ("bs", dict(df=5, lower_bound=0.9, upper_bound=0.1), "lower bound above upper bound"),
    ("bs", dict(df=5, knots=[0.3, 0.6], degree=3, intercept=True), "df and knots inconsistent once the intercept column is counted"),
    ("bs", dict(df=4, knots=[0.3, 0.6], degree=2, intercept=True), "df and knots inconsistent (degree 2, intercept)"),
    ("bs", dict(knots=[0.2], lower_bound=0.5), "knot below the lower bound"),
    ("bs", dict(knots=[0.8], upper_bound=0.5), "knot above the upper bound"),
]


def invalid_driver(m):
    from formulae.transforms import TRANSFORMS

    rng = np.random.default_rng(14)
    x = rng.uniform(0, 1, size=30)
    for t, p, why in INVALID:
        m.ev("invalid-parameters-refused")
        m.case({"invalid": [t, {k: repr(v) for k, v in p.items()}, why]}, canon=[t, why])
        try:
            TRANSFORMS[t]()(x, **p)
            m.violation("invalid-parameters-refused", f"{t}(**{p}) accepted: {why}", key="accepted:" + why)
        except Exception:
            pass
    # df AND knots given consistently (the intercept column counts): accepted, df columns
    for p, ncol in ((dict(df=6, knots=[0.3, 0.6], degree=3, intercept=True), 6), (dict(df=5, knots=[0.3, 0.6], degree=3), 5),
                    (dict(df=5, knots=[0.3, 0.6], degree=2, intercept=True), 5), (dict(df=3, knots=[0.5], degree=1, intercept=True), 3)):
        m.ev("bs-columns")
        m.case({"consistent": {k: repr(v) for k, v in p.items()}}, canon=["bs-consistent", repr(p)])
        try:
            B = np.asarray(TRANSFORMS["bs"]()(x, **p))
            if B.shape != (len(x), ncol):
                m.violation("bs-columns", f"bs(**{p}) returned shape {B.shape}, {ncol} columns expected", key="bs-columns")
        except Exception as e:
            m.violation("bs-columns", f"bs(**{p}) with consistent df and knots refused: {type(e).__name__}: {e}", key="bs-consistent-refused")
    # the same refusals where the offending knot is the number 0 (a falsy value) or a boundary is 0
    shifted = [(x + 1.0, dict(knots=[0.0, 1.5]), "knot 0 below the data"), (x - 2.0, dict(knots=[-1.5, 0.0]), "knot 0 above the data"),
               (x - 0.5, dict(knots=[0.0], lower_bound=0.2, upper_bound=1.0), "knot 0 below the lower bound"),
               (x - 0.5, dict(knots=[0.0], lower_bound=-1.0, upper_bound=-0.1), "knot 0 above the upper bound"),
               (x - 0.5, dict(knots=[0.3], lower_bound=-1.0, upper_bound=0.0), "knot above the upper bound 0"),
               (x - 0.5, dict(knots=[-0.3], lower_bound=0.0, upper_bound=1.0), "knot below the lower bound 0")]
    for xs, p, why in shifted:
        m.ev("invalid-parameters-refused")
        m.case({"invalid": ["bs", {k: repr(v) for k, v in p.items()}, why]}, canon=["bs", why])
        try:
            TRANSFORMS["bs"]()(xs, **p)
            m.violation("invalid-parameters-refused", f"bs(**{p}) accepted: {why}", key="accepted:" + why)
        except Exception:
            pass


def gen_params(rng, t):
    if t == "bs":
        degree = rng.choice([0, 1, 2, 3, 3, 3, 4, 5])
        intercept = rng.random() < 0.4
        p = {"degree": degree, "intercept": intercept}
        mode = rng.choice(["df", "df", "knots", "knots-unsorted", "bounds"])
        if mode in ("df", "bounds"):
            p["df"] = degree + (1 if intercept else 0) + rng.choice([0, 0, 1, 2, 3, 5])
            if p["df"] == 0:
                p["df"] = 1
                p["degree"] = 0
                p["intercept"] = True
            if mode == "bounds":
                p["lower_bound"], p["upper_bound"] = -1e4, 1e4
        else:
            nk = rng.choice([1, 2, 3, 4])
            p["knots_q"] = sorted(rng.uniform(0.1, 0.9) for _ in range(nk))
            p["unsorted"] = mode == "knots-unsorted"
            p["as_list"] = rng.random() < 0.5
            p["knots_int"] = rng.random() < 0.3
        return p
    if t == "poly":
        return {"degree": rng.choice([1, 2, 3, 4, 5, 6]), "raw": rng.random() < 0.3}
    return {}


def run_shard(i, n, tier, seed, m):
    if i == 0:
        core.guarded(invalid_driver)(m)
    rng = random.Random(seed * 1000003 + i * 47 + 14)
    ncases = (3200 if tier == "quick" else 100000) // n
    for k in range(ncases):
        t = rng.choice(["center", "scale", "standardize", "bs", "bs", "poly", "poly"])
        params = gen_params(rng, t)
        nmin = params.get("degree", 1) + 3
        case = {"transform": t, "params": params, "kind": rng.choice(KINDS), "n": rng.choice([nmin, nmin + 1, 8, 20, 50, 200]),
                "seed": rng.randrange(2 ** 31), "via_design": k % 5 == 0 and "knots_q" not in params}
        if case["n"] < nmin:
            case["n"] = nmin
        if rng.random() < 0.3:
            case["params"]["series"] = True
        m.case(case, canon=[t, sorted((a, repr(b)) for a, b in params.items()), case["kind"], case["n"], case["seed"]], nontrivial=True)
        judge(case, m)
    cross(i, n, tier, seed, m)


def cross(i, n, tier, seed, m):
    """The same monitors watching other properties' workloads (see core.cross_workloads)."""
    core.cross_workloads(m, DECIDING, ['C06', 'C08', 'C10'], tier, seed, i, n, 400 if tier == "quick" else 4000)


def replay(rec, m):
    register_hooks(m)
    case = rec["case"]
    if "invalid" in case:
        invalid_driver(m)
    elif "transform" in case:
        judge(case, m)
