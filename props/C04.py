"""C04 - every design-matrix column holds exactly what its label says.

Deciding monitor (boundary, intrinsic): post-condition on every DesignMatrices built and on every
object returned by evaluate_new_data:
  common-labels-match-columns / group-labels-match-columns
Fires on driver-made designs (with the driver's atom definitions) and, in generic mode (plain
variables only), on every call the repository's own tests make (W0).
"""
import random

import numpy as np

from fmon import core, attach
from fmon.ref import columns as RC
from workloads import designs as D

PROP = "C04"
DECIDING = ["design-built", "earlier-design-still-labelled", "common-labels-match-columns", "group-labels-match-columns", "newdata-labels-match-columns"]
CTX = {}
LAST = {}


def spec(tier):
    return {
        "level": "exploration",
        "deciding": DECIDING,
        "timeout": 900 if tier == "quick" else 5400,
        "w0": True,
        "rule": (
            "seeded random designs: 0..4 common terms of arity 1..4 in random factor order over numeric "
            "variables / pointwise calls and treatment-coded str / object / Categorical / ordered Categorical / "
            "C(int) factors, 0..3 group-specific terms (intercept, numeric, categorical and mixed effects; single and "
            "interaction grouping factors), frames of 1..40 rows with unequal level counts, a third with hostile "
            "level names (: | [ ] spaces, empty, non-ASCII); each design is also evaluated on a new frame made of "
            "rows of the training frame. distinct = distinct (formula text, frame seed); non-trivial = at least "
            "one categorical factor or interaction. Directed: raw polynomial pieces in ':' labels; frames with a missing categorical / grouping value built with na_action='pass' (a refusal is noted, a returned design is judged). W0: the repository's tests under the same contract (generic mode)."
        ),
        "assumptions": [
            "judged domain is the statement's: numeric variables / pointwise calls and treatment-coded factors; Sum codings and multi-column transforms are counted as not judged here (C13/C14/C17)",
            "candidate labels that collide (hostile level names) make a term ambiguous: skipped and counted",
        ],
        "classify": lambda v: v.get("key"),
    }


def _judge_matrices(dm_common, dm_group, train, df, meta, atoms, m, origin, newdata=False, no_unseen=False):
    note = m.note
    if dm_common is not None:
        name = "newdata-labels-match-columns" if newdata else "common-labels-match-columns"
        try:
            problems, judged = RC.check_common(dm_common, atoms, train, df, meta, note)
        except Exception as e:
            problems, judged = [f"unreadable|reading the matrix failed: {type(e).__name__}: {e}"], 1
        m.ev(name, applicable=judged > 0)
        for p in problems[:3]:
            m.violation(name, p.split("|", 1)[1], key="common:" + p.split("|", 1)[0])
    if dm_group is not None:
        name = "newdata-labels-match-columns" if newdata else "group-labels-match-columns"
        try:
            # (the driver's own new frames are rows of the training frame: no group can be new there)
            problems, judged = RC.check_group(dm_group, atoms, train, df, meta, note, allow_new=newdata and not no_unseen)
        except Exception as e:
            problems, judged = [f"unreadable|reading the matrix failed: {type(e).__name__}: {e}"], 1
        m.ev(name, applicable=judged > 0)
        for p in problems[:3]:
            m.violation(name, p.split("|", 1)[1], key="group:" + p.split("|", 1)[0])


def hook_dm_post(dm, formula, data, na_action, extra_namespace):
    m = core.mon()
    atoms, meta = CTX.get("atoms"), CTX.get("meta")
    train_c = dm.common.data if dm.common is not None else None
    train_g = dm.group.data if dm.group is not None else None
    if dm.common is not None:
        _judge_matrices(dm.common, None, train_c, train_c, meta, atoms, m, "dm")
    if dm.group is not None:
        _judge_matrices(None, dm.group, train_g, train_g, meta, atoms, m, "dm")


def hook_end_post(kind, matrix, new_data, result):
    m = core.mon()
    atoms, meta = CTX.get("atoms"), CTX.get("meta")
    if kind == "common":
        _judge_matrices(result, None, matrix.data, new_data, meta, atoms, m, "end", newdata=True)
    elif kind == "group":
        _judge_matrices(None, result, matrix.data, new_data, meta, atoms, m, "end", newdata=True,
                        no_unseen=bool(CTX.get("no_unseen")))


def wb_interaction_matrix(m):
    """[white-box] get_interaction_matrix: output column (j1, j2) = x[:, j1] * y[:, j2]."""
    try:
        import formulae.utils as U
        import formulae.terms.terms as T
    except Exception:
        m.note("attach-missing:get_interaction_matrix")
        return
    orig = U.get_interaction_matrix

    def get_interaction_matrix(x, y):
        r = orig(x, y)
        mm = core.mon()
        mm.attach["get_interaction_matrix"] += 1
        mm.ev("wb-interaction-matrix")
        try:
            # (the mathematical product: computed in float, so that the monitor does not wrap around with narrow ints)
            x2 = np.asarray(x if x.ndim == 2 else x[:, None], dtype=float)
            y2 = np.asarray(y if y.ndim == 2 else y[:, None], dtype=float)
            want = (x2[:, :, None] * y2[:, None, :]).reshape(x2.shape[0], -1)
            if r.shape != want.shape or not np.allclose(r, want, equal_nan=True):
                mm.violation("wb-interaction-matrix", f"product of {x2.shape} and {y2.shape} is not first-factor-slowest",
                             key="interaction-matrix-order")
        except Exception as e:
            mm.note("wb-interaction-matrix-error:" + type(e).__name__)
        return r

    U.get_interaction_matrix = get_interaction_matrix
    if getattr(T, "get_interaction_matrix", None) is orig:
        T.get_interaction_matrix = get_interaction_matrix


def register_hooks(m, foreign=False):
    attach.HOOKS["dm_post"].append(hook_dm_post)
    attach.HOOKS["end_post"].append(hook_end_post)
    wb_interaction_matrix(m)


def judge(case, m):
    import formulae

    df, meta = D.case_frame(case["frame"])
    text = D.formula_text(case)
    case = {**case, "text": text}
    atoms = {}
    for t in case["terms"] + [g["factor"] for g in case.get("group", [])] + \
            [g["effect"] for g in case.get("group", []) if g["effect"] != "1"]:
        for a in t:
            at = D.atom(a, meta)
            atoms[at.name] = at
    CTX.update(atoms=atoms, meta=meta)
    m.current_case = case
    LAST.pop("built", None)
    try:
        try:
            dm = formulae.design_matrices(text, df, extra_namespace=D.namespace(meta))
        except Exception as e:
            # degenerate data (single row / single-level factor in an interaction) has no stated
            # expectation: counted, not judged.  C04 is about designs that exist.
            m.note("design-raised:" + type(e).__name__)
            return
        m.ev("design-built")
        LAST["built"] = (dm, atoms, meta, case, df)
        # new data: rows of the training frame (any subset / order / repetition)
        rng = np.random.default_rng(case["frame"]["seed"] + 1)
        idx = rng.integers(0, len(df), size=int(rng.integers(1, len(df) + 3)))
        new = df.iloc[idx].reset_index(drop=True)
        CTX["no_unseen"] = True
        for part in (dm.common, dm.group):
            if part is None:
                continue
            try:
                part.evaluate_new_data(new)
            except Exception as e:
                m.note("newdata-raised:" + type(e).__name__)
        CTX["no_unseen"] = False
        ncat = sum(1 for a in atoms.values() if a.kind == "cat")
        m.cls("common-terms:%d" % len(case["terms"]), "group-terms:%d" % len(case.get("group", [])),
              "max-arity:%d" % max([len(t) for t in case["terms"]] + [0]), "hostile:%s" % case["frame"].get("hostile"))
        for a in atoms.values():
            m.cls("atomkind:" + (a.kind if a.kind == "num" else meta[a.col]["kind"]))
    finally:
        CTX.clear()


def rejudge_earlier(prev, m):
    """"In every design": an existing design must still satisfy the contract after other designs
    (same formula text, other data) have been built."""
    dm, atoms, meta, case, df = prev
    CTX.update(atoms=atoms, meta=meta)
    m.current_case = {**case, "rejudged_after_later_build": True}
    try:
        m.ev("earlier-design-still-labelled")
        before = sum(m.nviol.values())
        _judge_matrices(dm.common, None, dm.common.data, dm.common.data, meta, atoms, m, "re") if dm.common is not None else None
        _judge_matrices(None, dm.group, dm.group.data, dm.group.data, meta, atoms, m, "re") if dm.group is not None else None
        new = df.iloc[: max(1, len(df) // 2)]
        for part in (dm.common, dm.group):
            if part is not None:
                try:
                    part.evaluate_new_data(new)
                except Exception as e:
                    m.violation("earlier-design-still-labelled",
                                f"evaluate_new_data of an earlier design raised {type(e).__name__}: {e} after a later build",
                                key="earlier:raises")
        if sum(m.nviol.values()) > before:
            m.note("earlier-design-violations")
    finally:
        CTX.clear()


def judge_multicolumn_numeric(sd, m):
    """A ':' label whose numeric piece has several columns (raw polynomial: column j is x ** (j + 1)): the column
    labelled s[l]:poly(..)[j] is the indicator of l times x ** (j + 1), in both written orders and inside group terms."""
    import formulae
    import pandas as pd

    rng = np.random.default_rng(sd)
    nlev = int(rng.integers(2, 5))
    lv = [f"l{j}" for j in range(nlev)]
    n = 4 * nlev
    df = pd.DataFrame({"y": rng.normal(size=n), "x": rng.normal(size=n) + 1.5,
                       "s": pd.Series([lv[j % nlev] for j in rng.permutation(n)], dtype="str"),
                       "g": pd.Series([["p", "q"][j % 2] for j in rng.permutation(n)], dtype="str")})
    x, srows = df["x"].to_numpy(), np.asarray(df["s"].tolist(), dtype=object)
    p = "poly(x, 3, raw=True)"
    for text, part_name in ((f"y ~ 0 + s:{p}", "common"), (f"y ~ 0 + {p}:s", "common"), (f"y ~ x + s:{p}", "common"), (f"y ~ (0 + s:{p} | g)", "group")):
        case = {"text": text, "seed": sd, "multicolumn": True}
        m.current_case = case
        m.case(case, canon=[text, sd], nontrivial=True)
        contract = "common-labels-match-columns" if part_name == "common" else "group-labels-match-columns"
        m.ev(contract)
        try:
            dm = formulae.design_matrices(text, df)
            part = getattr(dm, part_name)
            X = np.asarray(part.design_matrix, dtype=float)
            for name, term in part.terms.items():
                if "poly" not in name or ":" not in name:
                    continue
                sl = part.slices[name]
                labels = list(term.labels)
                if len(labels) != sl.stop - sl.start:
                    m.violation(contract, f"{text}: term {name} has {len(labels)} labels for {sl.stop - sl.start} columns", case=case, key="multicolumn:label-count")
                    continue
                for j, lab in enumerate(labels):
                    want = np.ones(n)
                    body, grp = (lab.split("|", 1) + [None])[:2] if part_name == "group" else (lab, None)
                    for piece in body.split(":"):
                        if piece.startswith("s["):
                            want = want * (srows == piece[2:-1])
                        elif piece.startswith(p + "["):
                            want = want * x ** (int(piece[len(p) + 1:-1]) + 1)
                        else:
                            want = None
                            break
                    if want is not None and grp is not None:
                        want = want * (np.asarray(df["g"].tolist(), dtype=object) == grp[grp.index("[") + 1:-1])
                    if want is None:
                        m.note("multicolumn-label-not-understood")
                    elif not np.allclose(X[:, sl.start + j], want, rtol=1e-10, atol=1e-12):
                        m.violation(contract, f"{text}: column labelled {lab!r} is not the product its label names", case=case,
                                    key="multicolumn:label-column-mismatch")
                        break
        except Exception as e:
            m.violation(contract, f"{text}: {type(e).__name__}: {e}", case=case, key="multicolumn:raises")


def judge_pass_missing_categorical(sd, m):
    """na_action='pass' with a missing CATEGORICAL value (None in a str / object column, NaN in a category column, a
    missing grouping value). The pinned tree refuses such a frame (noted, nothing to judge). A design that is returned
    must keep every row, and a column labelled f[l] / 1|g[u] must not be 1 on a row whose f / g is missing: that row
    does not equal the level."""
    import formulae
    import pandas as pd

    rng = np.random.default_rng(sd)
    n = 9 + int(rng.integers(0, 6))
    base = pd.DataFrame({"y": rng.normal(size=n), "x": rng.normal(size=n),
                         "f": [["a", "b", "c"][j % 3] for j in rng.permutation(n)], "g": [["u", "v", "w"][j % 3] for j in rng.permutation(n)]})
    r = int(rng.integers(0, n))
    frames_ = []
    for col in ("f", "g"):
        o = base.copy(); o[col] = o[col].astype(object); o.loc[r, col] = None
        frames_.append((col, "object/None", o))
        c = o.copy(); c[col] = pd.Categorical(c[col])
        frames_.append((col, "category/NaN", c))
    for col, kind, df in frames_:
        for text in (("y ~ x + f", "y ~ 0 + f + x", "y ~ x + f:x") if col == "f" else ("y ~ x + (1|g)", "y ~ x + (x|g)", "y ~ x + g")):
            case = {"text": text, "seed": sd, "pass_missing": True, "kind": kind}
            m.current_case = case
            m.case(case, canon=[text, sd, kind], nontrivial=True)
            contract = "group-labels-match-columns" if "|" in text else "common-labels-match-columns"
            try:
                with core.shadow():
                    dm = attach.ORIG["design_matrices"](text, df, "pass", 0, None)
            except Exception as e:
                m.ev(contract, applicable=False)
                m.note("pass-missing-categorical-refused:" + type(e).__name__)
                continue
            m.ev(contract)
            part = dm.group if "|" in text else dm.common
            X = np.asarray(part.design_matrix, dtype=float)
            labels = [lab for t in part.terms.values() for lab in t.labels]
            if X.shape[0] != n or len(labels) != X.shape[1]:
                m.violation(contract, f"{text} ({kind}, pass): {X.shape} for {n} rows and {len(labels)} labels", case=case, key="pass-missing:shape")
                continue
            for j, lab in enumerate(labels):
                if (col + "[") in lab and ":" not in lab and X[r, j] == 1:
                    m.violation(contract, f"{text} ({kind}, na_action='pass'): row {r} has no value of {col} but column {lab!r} is 1 there",
                                case=case, key="pass-missing:coded-as-level")
                    break


def run_shard(i, n, tier, seed, m):
    for rep in range(4 if tier == "quick" else 40):
        if rep % n == i:
            core.guarded(judge_multicolumn_numeric)(seed * 31 + rep, m)
            core.guarded(judge_pass_missing_categorical)(seed * 37 + rep, m)
    rng = random.Random(seed * 1000003 + i * 101 + 4)
    ncases = (4000 if tier == "quick" else 60000) // n
    prev_case = None
    for k in range(ncases):
        # (T(v, ref) / C(v, Treatment(ref)) are treatment codings with a chosen reference: in the judged domain)
        case = D.random_case(rng, profile="plain", hostile=(k % 3 == 0), group_p=0.5, with_refs=(k % 2 == 0))
        if k % 4 == 3 and prev_case is not None and LAST.get("built"):
            # the same formula text on other data (other levels), then look at the earlier design again
            case = {**prev_case, "frame": case["frame"]}
            earlier = LAST["built"]
        else:
            earlier = None
        prev_case = case
        nontrivial = any(len(t) > 1 for t in case["terms"]) or bool(case["group"]) or any(
            a in ("s", "h", "o", "cu", "co", "C(k)", "`c:1`", "C(s)", "T(h)") for t in case["terms"] for a in t)
        m.case({**case, "text": D.formula_text(case)}, canon=[D.formula_text(case), case["frame"]["seed"]],
               nontrivial=nontrivial)
        judge(case, m)
        if earlier is not None:
            rejudge_earlier(earlier, m)
    cross(i, n, tier, seed, m)


def cross(i, n, tier, seed, m):
    """The same monitors watching other properties' workloads (see core.cross_workloads)."""
    core.cross_workloads(m, DECIDING, ['C05', 'C10', 'C08'], tier, seed, i, n, 400 if tier == "quick" else 4000)


def replay(rec, m):
    register_hooks(m)
    if rec["case"].get("multicolumn"):
        return judge_multicolumn_numeric(rec["case"]["seed"], m)
    if rec["case"].get("pass_missing"):
        return judge_pass_missing_categorical(rec["case"]["seed"], m)
    judge(rec["case"], m)
