"""C11 - name resolution order and evaluation environment.

Events are made unambiguous by planting the SAME name in any subset of the scopes with a distinct
sentinel per scope (and per stack level), so the observed value identifies the winning scope:
  data frame column -> 10     built-in -> the real formulae object     caller locals -> 300 + level
  caller globals -> 400 + level     extra_namespace -> 50
Deciding monitor (boundary):
  first-defining-scope-wins   argument role: data frame, built-ins, locals, globals, extra_namespace;
                              callee role: the same without the data frame (a column named like the
                              callee must not shadow it); dotted callees by attribute access
  undefined-name-raises       no defining scope => the call raises
  env-selects-frame           env=k takes BOTH locals and globals from the frame k levels above the caller
  shim-transparent            the monitored entry point and the raw function agree (same winner)
"""
import itertools
import types

import numpy as np
import pandas as pd

from fmon import core, attach

PROP = "C11"
DECIDING = ["first-defining-scope-wins", "undefined-name-raises", "env-selects-frame", "shim-transparent"]
SCOPES = ["data", "locals", "globals", "extra"]
ORDER_ARG = ["data", "builtin", "locals", "globals", "extra"]
ORDER_CALLEE = ["builtin", "locals", "globals", "extra"]


def spec(tier):
    return {
        "level": "exploration",
        "deciding": DECIDING,
        "timeout": 600 if tier == "quick" else 3600,
        "exhaustive": True,
        "rule": (
            "exhaustive: all subsets of the scopes {data frame, caller locals, caller globals, extra_namespace} x "
            "{name is / is not a formulae built-in} (2^5 configurations per role) x roles {argument, backquoted "
            "argument, callee, dotted callee a.f, dotted callee a.b.f, keyword-argument value} x env 0..3 through "
            "generated nested callers living in different modules (so locals and globals of the wrong frame are "
            "distinguishable) x {monitored entry point, raw function}; thorough adds more names and None-valued "
            "bindings. distinct = distinct configurations; non-trivial = at least two scopes define the name."
        ),
        "assumptions": [
            "a scope that binds the name to None still defines it (first match wins)",
        ],
        "classify": lambda v: v.get("key"),
    }


BUILTIN_NAMES = ["center", "Treatment", "C", "I", "scale", "Sum"]
PLAIN_NAMES = ["zq", "abs", "value_1", "id", "Xcol"]  # incl. names of PYTHON builtins: those are not a scope


def builtin_object(name):
    from formulae.transforms import TRANSFORMS
    from formulae.categorical import ENCODINGS

    return {**TRANSFORMS, **ENCODINGS}[name]


class Recorder:
    def __init__(self):
        self.args = []

    def __call__(self, *a, **k):
        self.args.append((a, k))
        first = a[0] if a else list(k.values())[0]
        n = len(first) if isinstance(first, (pd.Series, np.ndarray)) else REC_N[0]
        return np.full(n, 1.0)


REC_N = [6]
NONE_IN = [None]


def make_callers(depth, name, subset, role, raw, formula, ns, data, env):
    """Generate `depth`+1 nested callers, each in its own module dict.  Level 0 calls
    design_matrices(formula, data, env=env, extra_namespace=ns).  Returns the outermost callable."""
    nxt = None
    for level in range(depth + 1):
        g = {"__name__": f"fmon_gen_level{level}", "np": np, "pd": pd}
        lines = [f"def caller{level}():"]
        if "locals" in subset:
            if role in ("callee",):
                lines.append(f"    def {name}(v):\n        return np.full(len(v), {300.0 + level})")
            elif role.startswith("dotted"):
                lines.append(f"    {name} = _mk_ns({300.0 + level})")
            elif role == "arg-dotted":
                pass  # a dotted name cannot be a local variable; the decoy object below can
            elif role == "argument-none" and NONE_IN[0] == "locals":
                lines.append(f"    {name} = None")
            else:
                lines.append(f"    {name} = {300.0 + level}")
        if level == 0:
            lines.append("    return _dm(_formula, _data, env=_env, extra_namespace=_ns)")
            g["_dm"] = attach.ORIG["design_matrices"] if raw else __import__("formulae").design_matrices
            g.update(_formula=formula, _data=data, _env=env, _ns=ns)
        else:
            lines.append(f"    _pad = {level}")
            lines.append("    return _inner()")
            g["_inner"] = nxt
        if "globals" in subset and not name.isidentifier() is False:
            pass
        if role == "arg-dotted":
            # decoy: an object called like the first segment, whose attribute must NOT be used for an argument
            g[name.split(".")[0]] = types.SimpleNamespace(**{name.split(".")[1]: 777.0})
        if "globals" in subset:
            if role == "callee":
                g[name] = (lambda lv: (lambda v: np.full(len(v), 400.0 + lv)))(level)
            elif role.startswith("dotted"):
                g[name] = mk_ns(400.0 + level, role)
            elif role == "argument-none" and NONE_IN[0] == "globals":
                g[name] = None
            else:
                g[name] = 400.0 + level
        g["_mk_ns"] = lambda val, role=role: mk_ns(val, role)
        exec("\n".join(lines), g)
        nxt = g[f"caller{level}"]
    return nxt


def mk_ns(val, role):
    fn = lambda v, val=val: np.full(len(v), val)  # noqa: E731
    if role == "dotted2":
        return types.SimpleNamespace(sub=types.SimpleNamespace(fn=fn))
    return types.SimpleNamespace(fn=fn)


def configs(tier):
    """(role, name, is_builtin, subset, env)"""
    out = []
    names_b = BUILTIN_NAMES[:2] if tier == "quick" else BUILTIN_NAMES
    names_p = PLAIN_NAMES[:2] if tier == "quick" else PLAIN_NAMES
    subsets = [tuple(s for s, bit in zip(SCOPES, bits) if bit) for bits in itertools.product([0, 1], repeat=4)]
    for env in range(4):
        for sub in subsets:
            for nm in names_p:
                out.append(("argument", nm, False, sub, env))
                out.append(("kwvalue", nm, False, sub, env))
                out.append(("kwexpr", nm, False, sub, env))
                out.append(("kwcall", nm, False, sub, env))
                if any(sc in sub for sc in ("locals", "globals", "extra")):
                    out.append(("argument-none", nm, False, sub, env))
                out.append(("callee", nm, False, sub, env))
                if "data" not in sub or True:
                    out.append(("dotted1", nm, False, sub, env))
                    out.append(("dotted2", nm, False, sub, env))
            for nm in names_b:
                out.append(("argument", nm, True, sub, env))
                if nm in ("center", "scale", "I"):
                    out.append(("callee", nm, True, sub, env))
            if "locals" not in sub:  # a name that is not an identifier cannot be a local variable
                out.append(("bq-argument", "my name", False, sub, env))
                out.append(("arg-dotted", "zq.attr", False, sub, env))
    for sub in subsets:
        # names one letter-case away from Python's literals are ordinary names
        for nm in ("none", "TRUE", "false"):
            out.append(("argument", nm, False, sub, 0))
            out.append(("kwvalue", nm, False, sub, 1))
        out.append(("callee", "none", False, sub, 0))
        if "locals" not in sub:
            # names a Unicode normalisation would rewrite (MICRO SIGN, superscript two) are looked up as written;
            # Python itself normalises identifiers in source code, so they cannot be local variables here
            out.append(("argument", "\u00b5g", False, sub, 0))
            out.append(("kwvalue", "x\u00b2", False, sub, 0))
            out.append(("bq-argument", "\u212b ngstrom", False, sub, 1))
    return out


def expected_winner(role, is_builtin, subset):
    order = ORDER_CALLEE if role in ("callee", "dotted1", "dotted2") else ORDER_ARG
    for sc in order:
        if sc == "builtin":
            if is_builtin:
                return "builtin"
        elif sc in subset:
            return sc
    return None


def run_config(cfg, raw, m):
    role, name, is_builtin, subset, env = cfg
    n = 6
    REC_N[0] = n
    rng = np.random.default_rng(11)
    data = pd.DataFrame({"y": rng.normal(size=n), "x": rng.normal(size=n)})
    if "data" in subset:
        data[name] = 10.0
    rec = Recorder()
    ns = {"rec": rec}
    if "extra" in subset:
        if role == "callee":
            ns[name] = lambda v: np.full(len(v), 50.0)
        elif role.startswith("dotted"):
            ns[name] = mk_ns(50.0, role)
        elif role == "argument-none" and NONE_IN[0] == "extra":
            ns[name] = None
        else:
            ns[name] = 50.0
    q = f"`{name}`" if role == "bq-argument" else name
    formula = {"argument": f"y ~ rec({q})", "bq-argument": f"y ~ rec({q})", "argument-none": f"y ~ rec({q})",
               "arg-dotted": f"y ~ rec({q})", "kwvalue": f"y ~ rec(x, w={q})", "kwexpr": f"y ~ rec(x, w={q} * 2)", "kwcall": f"y ~ rec(x, w=np.abs({q}))", "callee": f"y ~ {name}(x)", "dotted1": f"y ~ {name}.fn(x)",
               "dotted2": f"y ~ {name}.sub.fn(x)"}[role]
    depth = 3
    outer = make_callers(depth, name, subset, role, raw, formula, ns, data, env)
    try:
        dm = outer()
        exc = None
    except Exception as e:
        dm, exc = None, e
    # observed winner
    winner, level = None, None
    if exc is None:
        if role in ("callee", "dotted1", "dotted2"):
            term = [t for t in dm.common.terms if t != "Intercept"][0]
            col = np.asarray(dm.common[term], dtype=float).reshape(-1)
            v = float(col[0])
            if np.allclose(col, v) and v in (50.0,) + tuple(300.0 + i for i in range(4)) + tuple(400.0 + i for i in range(4)):
                winner = "extra" if v == 50.0 else ("locals" if v < 400 else "globals")
                level = None if v == 50.0 else int(v) % 100
            elif np.allclose(col, 10.0):
                winner = "data"
            else:
                winner = "builtin"  # center / scale / I of x
        else:
            a, k = rec.args[0]
            obj = k["w"] if role in ("kwvalue", "kwexpr", "kwcall") else a[0]
            if role == "kwexpr" and not isinstance(obj, pd.Series):
                obj = float(obj) / 2
            if role == "kwcall" and not isinstance(obj, pd.Series):
                obj = float(obj)
            if isinstance(obj, pd.Series):
                winner = "data"
            elif is_builtin and obj is builtin_object(name):
                winner = "builtin"
            elif obj is None:
                winner, level = NONE_IN[0], env
            elif isinstance(obj, float) and obj == 777.0:
                winner = "decoy-attribute-access"
            elif isinstance(obj, float):
                winner = "extra" if obj == 50.0 else ("locals" if obj < 400 else "globals")
                level = None if obj == 50.0 else int(obj) % 100
            else:
                winner = "other:" + type(obj).__name__
    return winner, level, exc


def judge(cfg, m):
    role, name, is_builtin, subset, env = cfg
    case = {"role": role, "name": name, "builtin": is_builtin, "scopes": list(subset), "env": env}
    m.current_case = case
    want = expected_winner(role if role not in ("argument-none", "arg-dotted") else "argument", is_builtin, subset)
    # role argument-none: the scope that must win (when it is locals / globals / extra) binds the name to None
    NONE_IN[0] = want if (role == "argument-none" and want in ("locals", "globals", "extra")) else None
    res = {}
    for raw in (False, True):
        res[raw] = run_config(cfg, raw, m)
    (w1, l1, e1), (w2, l2, e2) = res[False], res[True]
    m.ev("shim-transparent")
    if (w1, l1, e1 is None) != (w2, l2, e2 is None):
        m.violation("shim-transparent", f"monitored entry point: {w1}@{l1} exc={e1!r}; raw function: {w2}@{l2} exc={e2!r}",
                    case=case, key="shim")
        return
    if want is None:
        m.ev("undefined-name-raises")
        if e1 is None:
            m.violation("undefined-name-raises", f"{name!r} is defined nowhere but resolved to {w1}", case=case, key="undefined-resolves")
        return
    m.ev("first-defining-scope-wins")
    if e1 is not None:
        m.violation("first-defining-scope-wins", f"{name!r} defined in {list(subset)} (+builtin={is_builtin}) but the call raised "
                    f"{type(e1).__name__}: {e1}", case=case, key="raises:" + role)
        return
    if w1 != want:
        m.violation("first-defining-scope-wins", f"{role} {name!r} defined in {list(subset)} (+builtin={is_builtin}): {w1} won, "
                    f"{want} expected", case=case, key=f"order:{role}:{want}->{w1}")
        return
    if want in ("locals", "globals") and NONE_IN[0] is None:
        m.ev("env-selects-frame")
        if l1 != env:
            m.violation("env-selects-frame", f"env={env}: {want} of stack level {l1} were used", case=case,
                        key=f"env:{want}")
    m.cls("role:" + role, "winner:" + want, "env:%d" % env, "ndef:%d" % (len(subset) + is_builtin))


def judge_env_object(m):
    """One Environment object owned by the caller and handed to several calls: each call sees ITS OWN
    extra_namespace behind the environment's scopes, and nothing of an earlier call's."""
    import formulae
    from formulae.environment import Environment

    rng = np.random.default_rng(5)
    data = pd.DataFrame({"y": rng.normal(size=6), "x": rng.normal(size=6)})
    env = Environment([{"loc": 300.0}, {"np": np, "glob": 400.0}])
    case = {"role": "env-object-reuse"}
    m.current_case = case
    m.case(case, canon="env-object-reuse")
    for k, (val, expect) in enumerate(((50.0, 50.0), (51.0, 51.0), (None, None))):
        rec = Recorder()
        ns = {"rec": rec}
        if val is not None:
            ns["extra_only"] = val
        m.ev("first-defining-scope-wins" if expect is not None else "undefined-name-raises")
        try:
            formulae.design_matrices("y ~ rec(extra_only) + rec(loc) + rec(glob)", data, env=env, extra_namespace=ns)
            got = [a[0][0] for a in rec.args]
            if expect is None:
                m.violation("undefined-name-raises", f"call {k}: 'extra_only' is defined nowhere for this call but resolved to {got[0]!r} "
                            "(left over from an earlier call with the same Environment object)", case=case, key="env-object:leak")
            elif got != [expect, 300.0, 400.0]:
                m.violation("first-defining-scope-wins", f"call {k} with the same Environment object: arguments {got}, expected {[expect, 300.0, 400.0]}",
                            case=case, key="env-object:stale")
        except Exception as e:
            if expect is not None:
                m.violation("first-defining-scope-wins", f"call {k}: {type(e).__name__}: {e}", case=case, key="env-object:raises")


def judge_newdata_precedence(m):
    """At prediction the data frame is the NEW frame: a name that came from the caller's scope at training
    time is taken from the new frame when the new frame has such a column (data frame first)."""
    import formulae

    rng = np.random.default_rng(6)
    data = pd.DataFrame({"y": rng.normal(size=6), "x": rng.normal(size=6)})
    case = {"role": "newdata-precedence"}
    m.current_case = case
    m.case(case, canon="newdata-precedence")
    rec = Recorder()
    zq = 300.0  # noqa: F841  (caller's local, used by the formula at training time)
    dm = formulae.design_matrices("y ~ rec(x, w=zq) + rec(zq)", data, extra_namespace={"rec": rec})
    trained = [a for a in rec.args]
    new = pd.DataFrame({"x": rng.normal(size=4), "zq": np.full(4, 10.0)})
    rec.args.clear()
    REC_N[0] = 4
    dm.common.evaluate_new_data(new)
    REC_N[0] = 6
    m.ev("first-defining-scope-wins")
    seen = [a[1].get("w", a[0][0] if a[0] else None) if a[1] else a[0][0] for a in rec.args]
    if not all(isinstance(v, pd.Series) and float(v.iloc[0]) == 10.0 for v in seen) or len(seen) != 2:
        m.violation("first-defining-scope-wins", f"new frame has a column 'zq' but the call received {[type(v).__name__ for v in seen]} "
                    f"(training time: {[type(a[0][0]).__name__ for a in trained]})", case=case, key="newdata:data-frame-not-first")


NESTED_SRC = """
def factory():
    bonus = 1.0
    def builder():
        _keep = bonus  # a closure: the code object of `builder` is nested and has a free variable
        return _dm(_formula, _data, extra_namespace=_ns)
    return builder

def driver(build):
    zq = 999.0          # a local of the DYNAMIC caller of `builder`: never in scope for the formula
    secret = 998.0
    return build()

def middle(build):
    zq = 997.0
    return driver(build)
"""


def judge_nested_caller(m):
    """design_matrices called from a nested function (closure) that is itself run by an unrelated driver:
    the caller's scope is the frame of the nested function (locals, then ITS globals); the locals of the
    functions further up the call chain are not part of it."""
    import formulae

    rng = np.random.default_rng(7)
    n = 6
    REC_N[0] = n
    for raw in (False, True):
        for bits in itertools.product([0, 1], repeat=3):
            subset = tuple(s for s, b in zip(("data", "globals", "extra"), bits) if b)
            for name, formula in (("zq", "y ~ rec(zq)"), ("zq", "y ~ rec(x, w=zq * 2)"), ("secret", "y ~ rec(secret)")):
                data = pd.DataFrame({"y": rng.normal(size=n), "x": rng.normal(size=n)})
                if "data" in subset:
                    data[name] = 10.0
                rec = Recorder()
                ns = {"rec": rec}
                if "extra" in subset:
                    ns[name] = 50.0
                g = {"__name__": "fmon_gen_nested", "np": np, "pd": pd, "_formula": formula, "_data": data, "_ns": ns,
                     "_dm": attach.ORIG["design_matrices"] if raw else formulae.design_matrices}
                if "globals" in subset:
                    g[name] = 400.0
                exec(NESTED_SRC, g)
                case = {"role": "nested-caller", "name": name, "formula": formula, "scopes": list(subset), "raw": raw}
                m.current_case = case
                m.case(case, canon=["nested", name, formula, subset, raw], nontrivial=True)
                want = {"data": 10.0, "globals": 400.0, "extra": 50.0}[subset[0]] if subset else None
                try:
                    g["middle"](g["factory"]())
                    a, k = rec.args[0]
                    obj = k["w"] if k else a[0]
                    got = float(obj.iloc[0]) if isinstance(obj, pd.Series) else float(obj)
                    if "w=" in formula:
                        got = got / 2
                    exc = None
                except Exception as e:
                    got, exc = None, e
                if want is None:
                    m.ev("undefined-name-raises")
                    if exc is None:
                        m.violation("undefined-name-raises", f"{name!r} is defined in no scope of the nested caller but resolved to {got} "
                                    "(999/998/997 are locals of functions further up the call chain)", case=case, key="nested:undefined-resolves")
                    continue
                m.ev("first-defining-scope-wins")
                if exc is not None:
                    m.violation("first-defining-scope-wins", f"nested caller, {name!r} defined in {list(subset)}: {type(exc).__name__}: {exc}",
                                case=case, key="nested:raises")
                elif got != want:
                    m.violation("first-defining-scope-wins", f"nested caller, {name!r} defined in {list(subset)}: value {got} was used, {want} expected "
                                "(999/998/997 are locals of functions further up the call chain)", case=case, key="nested:order")


def judge_reregistered_builtin(m):
    """The built-in scope is the table of registered transforms AS IT IS when the design is built: a name
    registered again (a corrected user class, an override of `center`) resolves to the new object, also after
    other designs have been built; a registered class is a stateful transform (its parameters are frozen)."""
    import formulae
    from formulae.transforms import TRANSFORMS, register_stateful_transform

    rng = np.random.default_rng(8)
    data = pd.DataFrame({"y": rng.normal(size=8), "x": rng.normal(size=8) + 5.0})
    new = pd.DataFrame({"x": rng.normal(size=3) + 50.0})

    def make(version):
        class Shift:
            __transform_name__ = "zq_shift"

            def __init__(self):
                self.m = None

            def __call__(self, v):
                if self.m is None:
                    self.m = float(np.mean(v))
                return np.asarray(v, dtype=float) - self.m + 100.0 * version

        return Shift

    case = {"role": "re-registered-builtin"}
    m.current_case = case
    m.case(case, canon="re-registered-builtin", nontrivial=True)
    saved = {k: TRANSFORMS.get(k) for k in ("zq_shift", "center")}
    try:
        for name in ("zq_shift", "center"):
            for version in (1, 2, 3):
                cls = make(version)
                cls.__transform_name__ = name
                register_stateful_transform(cls)
                m.ev("first-defining-scope-wins")
                try:
                    dm = formulae.design_matrices(f"y ~ {name}(x)", data)
                    col = np.asarray(dm.common[f"{name}(x)"], dtype=float).reshape(-1)
                    want = data["x"].to_numpy() - data["x"].mean() + 100.0 * version
                    if not np.allclose(col, want):
                        m.violation("first-defining-scope-wins", f"{name} registered for the {version}. time: the design still uses an "
                                    f"earlier registration (column mean {col.mean():.1f}, expected {want.mean():.1f})", case=case,
                                    key="builtin:stale-registration")
                        continue
                    got = np.asarray(dm.common.evaluate_new_data(new).design_matrix, dtype=float)[:, 1]
                    want2 = new["x"].to_numpy() - data["x"].mean() + 100.0 * version
                    if not np.allclose(got, want2):
                        m.violation("first-defining-scope-wins", f"{name} registered for the {version}. time: at prediction the registered "
                                    "class is not treated as a stateful transform (parameters re-estimated or another class used)",
                                    case=case, key="builtin:stale-registration-newdata")
                except Exception as e:
                    m.violation("first-defining-scope-wins", f"{name} registered for the {version}. time: {type(e).__name__}: {e}", case=case,
                                key="builtin:registration-raises")
    finally:
        for k, v in saved.items():
            if v is None:
                TRANSFORMS.pop(k, None)
            else:
                TRANSFORMS[k] = v


def judge_lookalike_caller(m):
    """A caller whose module name or file path merely BEGINS like the library's (formulae_recipes,
    .../formulae_contrib/models.py) is a caller like any other: its own frame is the scope."""
    import os
    import formulae

    pkg = os.path.dirname(os.path.abspath(formulae.__file__))
    rng = np.random.default_rng(10)
    REC_N[0] = 6
    for modname, fname in (("formulae_recipes", pkg + "_contrib" + os.sep + "models.py"), ("formulaextras.models", pkg + "extras" + os.sep + "m.py"),
                           ("formulae.contrib_not_really", os.path.join(os.path.dirname(pkg), "formulae_helpers.py"))):
        for env in (0, 1):
            for subset in (("locals",), ("globals",), ("extra",), ("locals", "globals", "extra"), ()):
                for raw in (False, True):
                    data = pd.DataFrame({"y": rng.normal(size=6), "x": rng.normal(size=6)})
                    rec = Recorder()
                    ns = {"rec": rec}
                    if "extra" in subset:
                        ns["zq"] = 50.0
                    src = "def outer():\n" + ("    zq = 301.0\n" if "locals" in subset else "    pad = 1\n") + "    return inner()\n" \
                          "def inner():\n" + ("    zq = 300.0\n" if "locals" in subset else "    pad = 0\n") + \
                          "    return _dm('y ~ rec(zq)', _data, env=_env, extra_namespace=_ns)\n"
                    g = {"__name__": modname, "np": np, "_data": data, "_env": env, "_ns": ns,
                         "_dm": attach.ORIG["design_matrices"] if raw else formulae.design_matrices}
                    if "globals" in subset:
                        g["zq"] = 400.0
                    exec(compile(src, fname, "exec"), g)
                    case = {"role": "lookalike-caller", "module": modname, "file": fname, "env": env, "scopes": list(subset), "raw": raw}
                    m.current_case = case
                    m.case(case, canon=["lookalike", modname, env, subset, raw], nontrivial=True)
                    want = None
                    if "locals" in subset:
                        want = 300.0 + env
                    elif "globals" in subset:
                        want = 400.0
                    elif "extra" in subset:
                        want = 50.0
                    try:
                        g["outer"]()
                        got, exc = float(rec.args[0][0][0]), None
                    except Exception as e:
                        got, exc = None, e
                    if want is None:
                        m.ev("undefined-name-raises")
                        if exc is None:
                            m.violation("undefined-name-raises", f"caller in module {modname!r} ({fname}): 'zq' is defined nowhere but resolved to {got}",
                                        case=case, key="lookalike:undefined-resolves")
                        continue
                    m.ev("env-selects-frame")
                    if exc is not None:
                        m.violation("env-selects-frame", f"caller in module {modname!r} ({fname}), env={env}: {type(exc).__name__}: {exc}", case=case,
                                    key="lookalike:raises")
                    elif got != want:
                        m.violation("env-selects-frame", f"caller in module {modname!r} ({fname}), env={env}, 'zq' defined in {list(subset)}: value {got} "
                                    f"was used, {want} expected", case=case, key="lookalike:wrong-frame")


def judge_unbound_module(m):
    """A dotted callee whose first name is bound in NO scope is undefined, even if a module of that name could
    be imported (numpy is bound as `np` only, json / math / statistics not at all)."""
    import formulae

    rng = np.random.default_rng(9)
    data = pd.DataFrame({"y": rng.normal(size=6), "x": rng.uniform(1, 2, size=6)})
    for formula in ("y ~ numpy.sqrt(x)", "y ~ math.floor(x)", "y ~ statistics.fmean(x) + x", "y ~ os.path.basename(x)",
                    "y ~ np.numpy_never_had_this(x)"):
        g = {"__name__": "fmon_gen_unbound", "np": np, "_dm": formulae.design_matrices, "_formula": formula, "_data": data}
        exec("def caller():\n    return _dm(_formula, _data)", g)
        case = {"role": "unbound-module", "formula": formula}
        m.current_case = case
        m.case(case, canon=["unbound-module", formula])
        m.ev("undefined-name-raises")
        try:
            g["caller"]()
            m.violation("undefined-name-raises", f"{formula!r}: the callee's first name is bound in no scope, yet the design was built",
                        case=case, key="unbound-module-resolves")
        except Exception:
            pass


def run_shard(i, n, tier, seed, m):
    if i == 3 % n:
        core.guarded(judge_unbound_module)(m)
    if i == 4 % n:
        core.guarded(judge_lookalike_caller)(m)
    if i == 2 % n:
        core.guarded(judge_reregistered_builtin)(m)
    if i == 0:
        core.guarded(judge_env_object)(m)
        core.guarded(judge_newdata_precedence)(m)
    if i == 1 % n:
        core.guarded(judge_nested_caller)(m)
    for k, cfg in enumerate(configs(tier)):
        if k % n != i:
            continue
        m.cases += 1
        if len(cfg[3]) + cfg[2] >= 2:
            m.distinct_count_only += 1
        if len(m.samples) < 3 and (k // n) % 13 == 3:
            m.samples.append({"role": cfg[0], "name": cfg[1], "builtin": cfg[2], "scopes": list(cfg[3]), "env": cfg[4]})
        judge(cfg, m)


def replay(rec, m):
    c = rec["case"]
    judge((c["role"], c["name"], c["builtin"], tuple(c["scopes"]), c["env"]), m)
