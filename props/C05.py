"""C05 - group-specific blocks: group indicators x effect columns, lme4 intercept rules.

Deciding monitor (boundary): post-condition on design_matrices for designs with a group part.
 (A) any data:   block-structure   every row is zero outside the slot of its own group cell
                 effect-columns    the slot holds the effect columns: numeric effects = the design
                                   of `0 + e` (shadow), categorical effects = level indicators (x numerics)
                 cells-and-terms   one term per (effect term, grouping term) incl. the implicit
                                   intercept; cells sorted / lexicographic; width = cells x effect width
 (B) fully crossed data from the driver:
                 coding-rank-span  per grouping factor the stacked blocks are linearly independent
                                   and span KhatriRao(indicators(g), model space of the effect expression)
"""
import itertools
import random

import numpy as np

from fmon import core, attach
from fmon.ref import space, contrast_rule
from workloads import frames

PROP = "C05"
DECIDING = ["block-structure", "effect-columns", "cells-and-terms", "coding-rank-span"]

# effect expressions: text -> (terms as (cat factors, num atoms) lists, removes intercept?)
EFFECTS = {
    "1": ([], False),
    "x": ([((), ("x",))], False),
    "0 + x": ([((), ("x",))], True),
    "scale(x)": ([((), ("scale(x)",))], False),
    "0 + np.exp(x)": ([((), ("np.exp(x)",))], True),
    "x + z": ([((), ("x",)), ((), ("z",))], False),
    "s": ([(("s",), ())], False),
    "0 + s": ([(("s",), ())], True),
    "-1 + s": ([(("s",), ())], True),
    "s + h": ([(("s",), ()), (("h",), ())], False),
    "0 + s + h": ([(("s",), ()), (("h",), ())], True),
    "s:h": ([(("s", "h"), ())], False),
    "0 + s:h": ([(("s", "h"), ())], True),
    "s*h": ([(("s",), ()), (("h",), ()), (("s", "h"), ())], False),
    "0 + s*h": ([(("s",), ()), (("h",), ()), (("s", "h"), ())], True),
    "s + s:h": ([(("s",), ()), (("s", "h"), ())], False),
    "x + s:x": ([((), ("x",)), (("s",), ("x",))], False),
    "0 + x + s:x": ([((), ("x",)), (("s",), ("x",))], True),
    "x:s": ([(("s",), ("x",))], False),
    "0 + x:s": ([(("s",), ("x",))], True),
    "x + s": ([((), ("x",)), (("s",), ())], False),
    "bs(x, df=4)": ([((), ("bs(x, df=4)",))], False),
    "0 + poly(x, 2)": ([((), ("poly(x, 2)",))], True),
    "C(s)": ([(("C(s)",), ())], False),
    "0 + T(s)": ([(("T(s)",), ())], True),
    # the removal as a later additive item (defect D24: only the leading one used to count)
    "s - 1": ([(("s",), ())], True),
    "x + s + 0": ([((), ("x",)), (("s",), ())], True),
    "s*h - 1": ([(("s",), ()), (("h",), ()), (("s", "h"), ())], True),
    "1 + x:s + -1": ([(("s",), ("x",))], True),
}
CATCOL = {"s": "s", "h": "h", "C(s)": "s", "T(s)": "s"}
# grouping expressions: text -> list of factor terms (tuples of factor atoms)
GROUPINGS = {
    "g": [("g",)],
    "g2": [("g2",)],
    "g:g2": [("g", "g2")],
    "g + g2": [("g",), ("g2",)],
    "g/g2": [("g",), ("g", "g2")],
    "g*g2": [("g",), ("g2",), ("g", "g2")],
    "C(k)": [("C(k)",)],
    "k": [("k",)],  # a numeric column used directly as grouping factor
    "co": [("co",)],
    "g2:C(k)": [("g2", "C(k)")],
}
FCOL = {"g": "g", "g2": "g2", "C(k)": "k", "k": "k", "co": "co"}


def spec(tier):
    return {
        "level": "exploration",
        "deciding": DECIDING,
        "timeout": 900 if tier == "quick" else 5400,
        "rule": (
            f"{len(EFFECTS)} effect expressions (intercept, numeric, transforms, categorical, sums, interactions, "
            f"with and without 0 + / -1 +) x {len(GROUPINGS)} grouping expressions (single factor, interaction, sum, "
            "nested /, *, C(k), ordered factor), one or two group terms per formula plus random common terms; "
            "(A) on random unbalanced frames (level counts 2..4, some cells empty) and (B) on fully crossed "
            "replicated frames; wide grouping factors (144, 256, 260 and 520 cells, one block above 2**20 entries). "
            "distinct = distinct (formula, level counts, frame seed); non-trivial = effect "
            "other than the bare intercept or a grouping with more than one factor."
        ),
        "assumptions": [
            "(B) is judged on complete-factorial frames built by the driver; rank/span by SVD and projection residuals",
            "known finding group-coding-simplified: inputs on which a clean re-implementation of the full-rank coding rule (fmon/ref/contrast_rule.py) differs from 'all reduced iff (1|g) present' or needs helper terms",
        ],
        "classify": classify,
    }


def effect_terms_for_rule(case_eff, factor_cols):
    terms, removes = EFFECTS[case_eff]
    return [(tuple(c for c in cat), tuple(num)) for cat, num in terms], not removes


def classify(v):
    key = v.get("key")
    case = v.get("case") or {}
    if key in ("coding:rank-deficient", "coding:loses-dimensions", "coding:outside-space"):
        factor = tuple(case.get("factor") or ())
        # the effect expression of that grouping factor: union over the group terms written for it
        terms, intercept = [], False
        for gt in case.get("group", []):
            if factor and factor not in [tuple(ft) for ft in GROUPINGS[gt["grouping"]]]:
                continue  # about another grouping factor
            t, has_int = effect_terms_for_rule(gt["effect"], None)
            terms += [x for x in t if x not in terms]
            intercept = intercept or has_int
        if terms and not contrast_rule.simplified_rule_coincides(terms, intercept):
            return "group-coding-simplified"
    return key


def make_frame(case):
    rng = np.random.default_rng(case["frame_seed"])
    lv = case["levels"]
    factors = {"g": lv["g"], "g2": lv["g2"], "s": lv["s"], "h": lv["h"], "k": lv["k"], "co": lv["co"]}
    kinds = {"g": "str", "g2": "cat", "s": "str", "h": "obj", "k": "code", "co": "ocat"}
    used = set()
    for gt in case["group"]:
        for cat, num in EFFECTS[gt["effect"]][0]:
            used.update(CATCOL[c] for c in cat)
        for ft in GROUPINGS[gt["grouping"]]:
            used.update(FCOL[f] for f in ft)
    for t in case.get("common", []):
        used.update(v for v in t if v in factors)
    factors = {f: n for f, n in factors.items() if f in used}
    if case["crossed"]:
        reps = case["reps"]
        df, meta = frames.factorial_frame(rng, factors, reps=reps, numerics=("x", "z"), kinds={f: kinds[f] for f in factors})
    else:
        df, meta = frames.factorial_frame(rng, factors, reps=1, numerics=("x", "z"), kinds={f: kinds[f] for f in factors},
                                          extra_rows=int(rng.integers(8, 20)))
        # unbalanced: drop random rows (cells may become empty, levels stay observed at least once)
        keep = rng.random(len(df)) < 0.75
        for f in factors:
            for l in set(df[f].tolist()):
                rows = np.flatnonzero((df[f] == l).to_numpy())
                if not keep[rows].any():
                    keep[rows[0]] = True
        df = df[keep].reset_index(drop=True)
        for f in factors:
            if kinds[f] != "ocat":
                meta[f]["levels"] = sorted(set(df[f].tolist()))
    return df, meta


def build_text(case):
    parts = [":".join(t) for t in case.get("common", [])]
    parts += [f"({gt['effect']} | {gt['grouping']})" for gt in case["group"]]
    rhs = " + ".join(parts)
    if not case.get("intercept", True):
        rhs = "0 + " + rhs
    return "y ~ " + rhs


def cell_index(df, meta, factor_term):
    idx = np.zeros(len(df), dtype=int)
    ncell = 1
    for f in factor_term:
        col = FCOL[f]
        lv = meta[col]["levels"]
        pos = {l: i for i, l in enumerate(lv)}
        idx = idx * len(lv) + np.array([pos[v] for v in df[col].tolist()], dtype=int)
        ncell *= len(lv)
    return idx, ncell


def numeric_matrix(df, atom):
    if atom in df.columns:
        return df[atom].to_numpy(dtype=float)[:, None]
    with core.shadow():
        sh = attach.ORIG["design_matrices"](f"0 + {atom}", df)
    return np.asarray(sh.common.design_matrix, dtype=float)


def effect_candidates(df, meta, cat, num):
    """All columns an effect term may legitimately contain: products of one level indicator per
    categorical factor and one column per numeric atom."""
    pieces = []
    for c in cat:
        col = CATCOL[c]
        rows = np.asarray(df[col].tolist(), dtype=object)
        pieces.append([(rows == l).astype(float) for l in meta[col]["levels"]])
    for a in num:
        mat = numeric_matrix(df, a)
        pieces.append([mat[:, j] for j in range(mat.shape[1])])
    out = []
    for combo in itertools.product(*pieces):
        col = np.ones(len(df))
        for p in combo:
            col = col * p
        out.append(col)
    return out


def judge(case, m):
    import formulae

    text = build_text(case)
    case = {**case, "text": text}
    df, meta = make_frame(case)
    n = len(df)
    m.current_case = case
    try:
        dm = formulae.design_matrices(text, df)
    except Exception as e:
        m.ev("builds")
        m.violation("builds", f"{type(e).__name__}: {e}", case=case, key="raises:" + type(e).__name__)
        return
    m.ev("builds")
    G = dm.group
    # expected term names
    expected = []
    for gt in case["group"]:
        terms, removes = EFFECTS[gt["effect"]]
        for ft in GROUPINGS[gt["grouping"]]:
            fname = ":".join(ft)
            effs = ([] if removes else [("1", (), ())]) + [(":".join(_term_atoms(cat, num, gt["effect"])), cat, num) for cat, num in terms]
            if gt["effect"] == "1":
                effs = [("1", (), ())]
            for ename, cat, num in effs:
                expected.append((f"{ename}|{fname}", ft, cat, num))
    m.ev("cells-and-terms")
    got_names = list(G.terms) if G is not None else []
    exp_names = list(dict.fromkeys(e[0] for e in expected))
    if sorted(got_names) != sorted(exp_names):
        m.violation("cells-and-terms", f"{text}: group terms {got_names}, expected {exp_names}", case=case, key="terms")
        return
    seen = set()
    for name, ft, cat, num in expected:
        if name in seen:
            continue
        seen.add(name)
        block = np.asarray(G[name], dtype=float)
        cidx, ncell = cell_index(df, meta, ft)
        if block.shape[1] % ncell != 0 or list(G.terms[name].groups) != _cell_labels(meta, ft):
            m.violation("cells-and-terms",
                        f"{name}: {block.shape[1]} columns for {ncell} cells; groups {G.terms[name].groups} vs {_cell_labels(meta, ft)}",
                        case=case, key="cells")
            continue
        if not np.isfinite(block).all():
            m.note("non-finite-block-not-judged")  # e.g. poly of degree >= number of points
            continue
        p = block.shape[1] // ncell
        try:
            nlab = len(G.terms[name].labels)
        except Exception as e:
            nlab = f"labels raise {type(e).__name__}"
        if nlab != block.shape[1]:
            m.violation("cells-and-terms", f"{name}: {nlab} labels for {block.shape[1]} columns", case=case, key="labels")
        m.ev("block-structure")
        mask = np.zeros_like(block, dtype=bool)
        for j in range(p):
            mask[np.arange(n), cidx * p + j] = True
        if np.any(block[~mask] != 0):
            m.violation("block-structure", f"{name}: non-zero entries outside the slot of the row's own group",
                        case=case, key="block")
            continue
        E = np.column_stack([block[np.arange(n), cidx * p + j] for j in range(p)])
        m.ev("effect-columns")
        if not cat and num == () and name.startswith("1|"):
            ok = p == 1 and np.all(E == 1)
            why = "group intercept is not a column of ones"
        elif not cat:
            want = effect_candidates(df, meta, (), num)
            want = np.column_stack(want)
            ok = want.shape == E.shape and np.allclose(E, want, rtol=1e-10, atol=1e-12)
            why = f"numeric effect columns differ from the design of `0 + {':'.join(num)}`"
        else:
            cands = effect_candidates(df, meta, cat, num)
            used, ok = set(), True
            for j in range(p):
                hit = [k for k, c in enumerate(cands) if k not in used and np.allclose(E[:, j], c, rtol=1e-10, atol=1e-12)]
                if not hit:
                    ok = False
                    break
                used.add(hit[0])
            why = "a categorical effect column is not a level indicator (x numeric) of the data"
            if case["crossed"] and meta and any(np.asarray(c).sum() == 0 for c in cands):
                ok = ok  # empty cells cannot occur on crossed frames
        if not ok:
            m.violation("effect-columns", f"{name}: {why}", case=case, key="effect")
    # (B) coding rule on crossed frames, per grouping factor term
    if case["crossed"]:
        by_factor = {}
        for name, ft, cat, num in expected:
            by_factor.setdefault(ft, {})[name] = (cat, num)
        for ft, terms in by_factor.items():
            Z = np.column_stack([np.asarray(G[nm], dtype=float) for nm in terms])
            cidx, ncell = cell_index(df, meta, ft)
            J = np.zeros((n, ncell))
            J[np.arange(n), cidx] = 1.0
            has_int = any(nm.startswith("1|") for nm in terms)
            blocks = []
            for nm, (cat, num) in terms.items():
                if nm.startswith("1|") and not cat and not num:
                    continue
                mats = []
                for c in cat:
                    col = CATCOL[c]
                    mats.append(space.indicators(df[col].tolist(), meta[col]["levels"]))
                for a in num:
                    mats.append(numeric_matrix(df, a))
                blocks.append(mats)
            R = space.rowkron(J, space.model_space(n, blocks, has_int))
            m.ev("coding-rank-span")
            ratio = space.min_sv_ratio(Z)
            lost = space.residual_outside(Z, R)
            extra = space.residual_outside(R, Z)
            degenerate = False
            if ratio < 1e-9 or lost > 1e-6:
                # the premise: numeric effects in general position WITHIN every cell (a spline column may vanish on the few
                # points of one cell: then the model space itself loses a dimension and nothing can be said about the coding)
                for nm, (cat, num) in terms.items():
                    for a in num:
                        Mx = np.asarray(numeric_matrix(df, a), dtype=float)
                        Mx = Mx.reshape(n, -1)
                        if Mx.shape[1] < 2:
                            continue
                        for c in range(ncell):
                            rows_c = cidx == c
                            if rows_c.sum() and space.min_sv_ratio(np.column_stack([np.ones(int(rows_c.sum())), Mx[rows_c]])) < 1e-9:
                                degenerate = True
            if degenerate:
                m.note("numeric-effect-not-in-general-position-within-a-cell")
            elif ratio < 1e-9:
                m.violation("coding-rank-span",
                            f"{text}: blocks of {':'.join(ft)} have {Z.shape[1]} columns but rank {space.rank(Z)} (space {space.rank(R)})",
                            case={**case, "factor": list(ft)}, key="coding:rank-deficient")
            elif lost > 1e-6:
                m.violation("coding-rank-span",
                            f"{text}: blocks of {':'.join(ft)} span {space.rank(Z)} of the {space.rank(R)} dimensions",
                            case={**case, "factor": list(ft)}, key="coding:loses-dimensions")
            elif extra > 1e-6:
                m.violation("coding-rank-span", f"{text}: blocks of {':'.join(ft)} leave the model space",
                            case={**case, "factor": list(ft)}, key="coding:outside-space")
    m.cls("effect:" + "+".join(g["effect"] for g in case["group"]), "grouping:" + "+".join(g["grouping"] for g in case["group"]),
          "crossed:%s" % case["crossed"])


def _term_atoms(cat, num, eff_text):
    """Component order as written in the effect text (x:s vs s:x)."""
    atoms = list(cat) + list(num)
    order = sorted(atoms, key=lambda a: _last_pos(eff_text, a))
    return order


def _last_pos(text, a):
    # position of the atom inside the interaction it belongs to: use the last occurrence
    return text.rfind(a)


def _cell_labels(meta, ft):
    labs = [[str(l) for l in meta[FCOL[f]]["levels"]] for f in ft]
    return [":".join(t) for t in itertools.product(*labs)]


def gen_cases(tier, seed, i, n):
    effs, grps = list(EFFECTS), list(GROUPINGS)
    k = 0
    # every effect x grouping, crossed and unbalanced
    for e in effs:
        for g in grps:
            for crossed in (True, False):
                if k % n == i:
                    yield k, {"group": [{"effect": e, "grouping": g}], "crossed": crossed}
                k += 1
    # two separately written group terms on the SAME grouping factor, in both orders
    # (the coding of an effect must not depend on where the group intercept is written)
    pairs = [("1", e) for e in effs if e != "1" and EFFECTS[e][1]] + \
            [("0 + x", "0 + s"), ("0 + s", "0 + x"), ("x", "0 + s"), ("0 + s", "x"), ("s", "0 + x:s"), ("0 + x", "s")]
    for a, b in pairs:
        for order in ((a, b), (b, a)):
            for g in ("g", "g:g2", "g + g2", "k", "C(k)"):
                for crossed in (True, False):
                    if k % n == i:
                        yield k, {"group": [{"effect": order[0], "grouping": g}, {"effect": order[1], "grouping": g}],
                                  "crossed": crossed}
                    k += 1
    # `|` distributed over a sum of factors, plus a separately written term on one of them
    for a, b in [("0 + s", "1"), ("s", "0 + x"), ("0 + x:s", "x"), ("0 + s + h", "1"), ("0 + s", "x")]:
        for ga, gb in (("g + g2", "g"), ("g + g2", "g2"), ("g*g2", "g:g2"), ("g/g2", "g")):
            for order in (0, 1):
                for crossed in (True, False):
                    gts = [{"effect": a, "grouping": ga}, {"effect": b, "grouping": gb}]
                    if k % n == i:
                        yield k, {"group": gts if order == 0 else gts[::-1], "crossed": crossed}
                    k += 1
    # wide grouping factors: more cells than a signed / unsigned byte counts (12 x 12 = 144, 16 x 16 = 256)
    for e in ("1", "x", "0 + x", "0 + s"):
        for g in ("g:g2", "g/g2", "g2:C(k)", "g"):
            for dims in ((12, 12), (16, 16)) + (((130, 2),) if e in ("1", "0 + x") and g != "g2:C(k)" else ()):
                if k % n == i:
                    yield k, {"group": [{"effect": e, "grouping": g}], "crossed": True, "wide": list(dims)}
                k += 1
    # long AND wide: more than 2**20 cells in one block (2080 rows x 520 groups), not a multiple of anything convenient
    for e in ("1", "x"):
        if k % n == i:
            yield k, {"group": [{"effect": e, "grouping": "g:g2"}], "crossed": True, "wide": [130, 4], "reps_wide": 4}
        k += 1
    rng = random.Random(seed * 1000003 + i * 13 + 5)
    nrand = (1600 if tier == "quick" else 30000) // n
    for j in range(nrand):
        ngt = rng.choice([1, 1, 2])
        gts = []
        used_f = set()
        for _ in range(ngt):
            g = rng.choice(grps)
            fts = frozenset(GROUPINGS[g])
            if any(ft in used_f for ft in fts):
                continue
            used_f.update(fts)
            gts.append({"effect": rng.choice(effs), "grouping": g})
        common = rng.choice([[], [["x"]], [["s"]], [["x"], ["h"]], [["s", "x"]], [["z"]]])
        yield 10 ** 6 + j * n + i, {"group": gts, "crossed": rng.random() < 0.6, "common": common,
                                      "intercept": rng.random() < 0.8}


def finish(case, k, seed):
    r = random.Random(k * 2654435761 % (2 ** 31) + seed)
    case["levels"] = {f: r.choice([2, 3]) for f in ("g", "g2", "s", "h", "k", "co")}
    case["levels"]["k"] = r.choice([2, 3, 4])
    case["levels"]["g"] = r.choice([2, 3, 4])
    case["frame_seed"] = (k * 7919 + seed * 104729 + 11) % (2 ** 31)
    case["reps"] = r.choice([3, 4])
    if any(a in g["effect"] for g in case["group"] for a in ("bs(", "poly(")):
        case["reps"] = 12
    if case.get("wide"):
        case["levels"]["g"], case["levels"]["g2"] = case["wide"]
        case["levels"]["k"], case["levels"]["s"] = 6, 2
        case["reps"] = case.get("reps_wide", 2)
    return case


def run_shard(i, n, tier, seed, m):
    for k, case in gen_cases(tier, seed, i, n):
        case = finish(case, k, seed)
        text = build_text(case)
        nontrivial = any(g["effect"] != "1" or len(GROUPINGS[g["grouping"]][0]) > 1 for g in case["group"])
        m.case({**case, "text": text}, canon=[text, case["levels"], case["frame_seed"], case["crossed"]], nontrivial=nontrivial)
        judge(case, m)


def replay(rec, m):
    judge(rec["case"], m)
