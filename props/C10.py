"""C10 - unseen levels and new groups at prediction follow the configured policy.

Deciding monitors (boundary) on evaluate_new_data, driven with frames in which the driver plants an
unseen level in one categorical variable v on the rows S:
  common-unseen-policy   error -> raises; warning/silent -> every column of every term involving v
                         is 0 on S and every other entry equals the shadow evaluation of the frame in
                         which S's v is replaced by a seen level; warning emits a UserWarning naming v,
                         silent emits none (from formulae)
  group-new-block        for every term of a factor with unseen groups exactly one trailing block holds
                         the effect values on exactly the rows with unseen groups, existing blocks are
                         what they are without them (zero on those rows), slices are contiguous,
                         factors_with_new_levels names exactly those factors
  config-documented      (icontract invariant on Config + exhaustive driver) only documented keys /
                         values are accepted, config[k] returns the last accepted value, a rejected
                         assignment changes nothing
"""
import random
import warnings

import numpy as np
import pandas as pd

from fmon import core, attach
from workloads import designs as D

PROP = "C10"
DECIDING = ["common-unseen-policy", "group-new-block", "config-documented", "config-invariant"]
MODES = ["error", "warning", "silent"]


def spec(tier):
    return {
        "level": "exploration",
        "deciding": DECIDING,
        "timeout": 900 if tier == "quick" else 5400,
        "rule": (
            "seeded random designs (plain / stateful atoms, C/T/S codings with references, interactions, "
            "group-specific terms with single and interaction grouping factors) x placements of one unseen level "
            "(predictor, effect variable, grouping variable, component of an interaction factor; string / object / "
            "Categorical / int-code columns) on a random non-empty row set x the three modes, with the mode changed "
            "between evaluations of the same design; configuration space (keys x values x item / attribute / "
            "constructor assignment, incl. hostile values) exhaustive; special placements on fixed formulas: a missing value in "
            "the factor, an unseen level while every other factor of the term is zero on all new rows, explicit levels=, "
            "integer levels beyond 2**53, unseen levels inside a group expr; a third of the planted values merely PRINT "
            "like a seen level. distinct = distinct (formula, frame seed, "
            "variable, mode); non-trivial = the planted variable occurs in the formula."
        ),
        "assumptions": [
            "what a group evaluation does in 'error' mode is not stated: raising is accepted, not required",
            "warnings are matched by message (pandas emits its own warnings for out-of-category values)",
        ],
        "classify": lambda v: v.get("key"),
    }


# ---------------------------------------------------------------------------------------------
# config
# ---------------------------------------------------------------------------------------------
class _Sentinel:
    pass


def install_config_invariant(m):
    import icontract
    from formulae.config import Config

    def documented_state(self):
        mm = core.mon()
        mm.ev("config-invariant")
        val = self.__dict__.get("EVAL_UNSEEN_CATEGORIES", _Sentinel)
        extra = [k for k in self.__dict__ if k != "EVAL_UNSEEN_CATEGORIES"]
        if val not in ("error", "warning", "silent") or extra:
            mm.violation("config-invariant", f"config holds EVAL_UNSEEN_CATEGORIES={val!r}, other keys {extra}",
                         case={"config_state": repr(self.__dict__)}, key="config-state")
        return True  # record and return: never raise into the code under observation

    if getattr(Config, "_fmon_invariant", False):
        return
    icontract.invariant(documented_state, error=RuntimeError,
                        check_on=icontract.InvariantCheckEvent.CALL | icontract.InvariantCheckEvent.SETATTR)(Config)
    Config._fmon_invariant = True


def config_driver(m):
    import formulae
    from formulae.config import Config

    cfg = formulae.config
    good_keys = ["EVAL_UNSEEN_CATEGORIES"]
    good_vals = ["error", "warning", "silent"]
    bad_vals = ["ERROR", "Error", "warn", "err", "", " ", "r", "error ", "error, warning", None, 0, 1, True,
                ("error",), ["error"], "silence", "ignore", "raise", "errorwarning", b"error"]
    bad_keys = ["eval_unseen_categories", "EVAL_UNSEEN", "", "FIELDS", "x", "__class__x", "EVAL_UNSEEN_CATEGORIES "]
    cfg["EVAL_UNSEEN_CATEGORIES"] = "error"
    current = "error"
    for how in ("item", "attr"):
        for v in good_vals + bad_vals + good_vals[::-1]:
            m.ev("config-documented")
            case = {"config": [how, "EVAL_UNSEEN_CATEGORIES", repr(v)]}
            try:
                if how == "item":
                    cfg["EVAL_UNSEEN_CATEGORIES"] = v
                else:
                    setattr(cfg, "EVAL_UNSEEN_CATEGORIES", v)
                accepted = True
            except Exception:
                accepted = False
            documented = isinstance(v, str) and v in good_vals
            if accepted != documented:
                m.violation("config-documented", f"value {v!r} {'accepted' if accepted else 'refused'} by {how} assignment",
                            case=case, key="config-value-" + ("accepted" if accepted else "refused"))
            if accepted and documented:
                current = v
            got = cfg["EVAL_UNSEEN_CATEGORIES"]
            if got != current or getattr(cfg, "EVAL_UNSEEN_CATEGORIES") != current:
                m.violation("config-documented", f"after assigning {v!r} the configuration reads {got!r}, last accepted value {current!r}",
                            case=case, key="config-readback")
                current = got if got in good_vals else current
                cfg.__dict__["EVAL_UNSEEN_CATEGORIES"] = current
        for k in bad_keys:
            m.ev("config-documented")
            case = {"config": [how, k, "'silent'"]}
            try:
                if how == "item":
                    cfg[k] = "silent"
                else:
                    setattr(cfg, k, "silent")
                m.violation("config-documented", f"unknown key {k!r} accepted by {how} assignment", case=case, key="config-key-accepted")
                cfg.__dict__.pop(k, None)
            except Exception:
                pass
    # constructor
    for v in good_vals + bad_vals:
        m.ev("config-documented")
        try:
            c = Config({"EVAL_UNSEEN_CATEGORIES": v})
            ok = c["EVAL_UNSEEN_CATEGORIES"] == v
            accepted = True
        except Exception:
            accepted, ok = False, True
        documented = isinstance(v, str) and v in good_vals
        if accepted != documented or not ok:
            m.violation("config-documented", f"Config({{'EVAL_UNSEEN_CATEGORIES': {v!r}}}) {'accepted' if accepted else 'refused'}",
                        case={"config": ["constructor", repr(v)]}, key="config-constructor")
    m.ev("config-documented")
    if Config()["EVAL_UNSEEN_CATEGORIES"] != "error":
        m.violation("config-documented", "default mode is not 'error'", key="config-default")
    cfg["EVAL_UNSEEN_CATEGORIES"] = "error"


def register_hooks(m, foreign=False):
    install_config_invariant(m)


# ---------------------------------------------------------------------------------------------
# planting
# ---------------------------------------------------------------------------------------------
class Twin:
    """A value that PRINTS like a training level but is not equal to it (think of the int 1 next to the
    level '1'): an unseen level like any other."""

    def __init__(self, text):
        self.text = str(text)

    def __str__(self):
        return self.text

    __repr__ = __str__

    def __hash__(self):
        return hash(("twin", self.text))

    def __eq__(self, other):
        return self is other

    def __lt__(self, other):  # sortable next to strings, should anybody sort levels
        return str(self) < str(other)

    def __gt__(self, other):
        return str(self) > str(other)


def plant(df, meta, col, rows, twin=False):
    """Returns (frame with an unseen level of `col` on `rows`, the same rows with a SEEN level)."""
    kind = meta[col]["kind"]
    new = df.copy()
    seen = df.copy()
    first = meta[col]["levels"][0]
    if kind == "code":
        unseen_val = 99991
    elif twin and kind in ("obj", "cat"):
        unseen_val = Twin(meta[col]["levels"][-1])
    else:
        unseen_val = "ZZ new"
    for fr, val in ((new, unseen_val), (seen, first)):
        if isinstance(fr[col].dtype, pd.CategoricalDtype):
            fr[col] = fr[col].astype(object)
        vals = fr[col].tolist()
        for r in rows:
            vals[r] = val
        if kind == "code":
            fr[col] = np.array(vals, dtype=int)
        elif kind == "obj" or kind in ("cat", "ocat"):
            fr[col] = pd.Series(vals, dtype=object, index=fr.index)
        else:
            fr[col] = pd.Series(vals, dtype="str", index=fr.index)
    return new, seen


def atoms_of(case, meta):
    atoms = {}
    for t in case["terms"] + [g["factor"] for g in case.get("group", [])] + \
            [g["effect"] for g in case.get("group", []) if g["effect"] != "1"]:
        for a in t:
            at = D.atom(a, meta)
            atoms[at.name] = at
    return atoms


def judge(case, m):
    import formulae

    df, meta = D.case_frame(case["frame"])
    text = D.formula_text(case)
    ns = D.namespace(meta)
    case = {**case, "text": text}
    m.current_case = case
    formulae.config["EVAL_UNSEEN_CATEGORIES"] = "error"
    try:
        dm = formulae.design_matrices(text, df, extra_namespace=ns)
    except Exception as e:
        m.note("design-raised:" + type(e).__name__)
        return
    atoms = atoms_of(case, meta)
    numeric_use = {v for a in atoms.values() if a.kind != "cat" for v in a.vars}
    # (a column that is ALSO used numerically, e.g. C(k) + binary(k), is not planted: substituting a seen
    # level would change the numeric term as well, and the statement says nothing about that)
    cat_cols = sorted({a.col for a in atoms.values() if a.kind == "cat" and meta[a.col]["kind"] != "ocat"} - numeric_use)
    if not cat_cols:
        m.note("no-categorical-variable")
        return
    rng = np.random.default_rng(case["frame"]["seed"] + 10)
    col = cat_cols[int(rng.integers(0, len(cat_cols)))]
    n_new = int(rng.integers(2, 12))
    base = df.iloc[rng.integers(0, len(df), size=n_new)].reset_index(drop=True)
    k = int(rng.integers(1, n_new))
    S = np.sort(rng.choice(n_new, size=k, replace=False))
    twin = meta[col]["kind"] in ("obj", "cat") and case["frame"]["seed"] % 3 == 0
    new, seen = plant(base, meta, col, S, twin=twin)
    if twin:
        m.cls("unseen:prints-like-a-seen-level")
    # arbitrary index on the new frame (permuted, non-unique, strings): rows are positions, not labels
    ik = int(rng.integers(0, 4))
    if ik == 1:
        lab = rng.permutation(n_new)
    elif ik == 2:
        lab = np.repeat(np.arange((n_new + 1) // 2), 2)[:n_new]
    elif ik == 3:
        lab = np.array([f"r{(j * 3) % n_new}" for j in range(n_new)], dtype=object)
    if ik:
        new.index = pd.Index(lab)
        seen.index = pd.Index(lab)
    onS = np.zeros(n_new, bool)
    onS[S] = True
    case.update(planted={"column": col, "rows": S.tolist(), "kind": meta[col]["kind"]})

    def involves(comps):
        for c in comps:
            at = atoms.get(str(c.name))
            if at is not None and col in at.vars and at.kind == "cat":
                return True  # (a numeric use of the column, e.g. binary(k), has no levels to be unseen)
            if at is None and str(c.name) == col:
                return True
        return False

    # the references (a seen level substituted on the rows S) do not depend on the mode: they are taken
    # once, BEFORE the loop, so that the three evaluations of the same frame object follow each other directly
    ref_common = ref_group = None
    with core.shadow():
        try:
            if dm.common is not None:
                ref_common = np.asarray(attach.ORIG["common_end"](dm.common, seen).design_matrix, dtype=float)
        except Exception as e:
            m.note("seen-frame-raised:" + type(e).__name__)
        try:
            if dm.group is not None:
                ref_group = attach.ORIG["group_end"](dm.group, seen)
        except Exception as e:
            m.note("seen-frame-raised:" + type(e).__name__)
    modes = list(MODES)
    rng.shuffle(modes)
    for mode in modes:  # the mode is changed between evaluations of the SAME design on the SAME frame object
        formulae.config["EVAL_UNSEEN_CATEGORIES"] = mode
        m.cls("mode:" + mode, "planted-kind:" + meta[col]["kind"])
        # ---- common ------------------------------------------------------------------------
        C = dm.common
        if C is not None:
            touched = [nm for nm, t in C.terms.items() if involves(getattr(t, "components", []))]
            m.ev("common-unseen-policy", applicable=bool(touched))
            with warnings.catch_warnings(record=True) as rec:
                warnings.simplefilter("always")
                try:
                    r = C.evaluate_new_data(new)
                    got = np.asarray(r.design_matrix, dtype=float)
                    exc = None
                except Exception as e:
                    got, exc = None, e
            msgs = [str(w.message) for w in rec if "not present in the original data set" in str(w.message)]
            if touched:
                m.cls("common-placement:" + ("interaction" if any(":" in t for t in touched) else "main"))
                if mode == "error":
                    if exc is None:
                        m.violation("common-unseen-policy", f"mode error: unseen level of {col} accepted", case=case, key="common:error-not-raised")
                elif exc is not None:
                    m.violation("common-unseen-policy", f"mode {mode}: raised {type(exc).__name__}: {exc}", case=case,
                                key="common:raises-in-" + mode)
                else:
                    if ref_common is None:
                        continue
                    want = ref_common.copy()
                    for nm in touched:
                        sl = C.slices[nm]
                        want[np.ix_(onS, np.arange(sl.start, sl.stop))] = 0.0
                    if got.shape != want.shape or not np.allclose(got, want, rtol=1e-10, atol=1e-12, equal_nan=True):
                        where = "shape" if got.shape != want.shape else _first_bad(C, got, want)
                        m.violation("common-unseen-policy",
                                    f"mode {mode}: columns involving {col} must be 0 on rows {S.tolist()} and everything else "
                                    f"as with a seen level; differs in {where}", case=case, key="common:values")
                    if mode == "warning" and not any(col in s_ or any(col in a.text for a in atoms.values() if a.text in s_) for s_ in msgs):
                        m.violation("common-unseen-policy", f"mode warning: no UserWarning naming {col} (got {msgs[:1]})", case=case,
                                    key="common:no-warning")
                    if mode == "silent" and msgs:
                        m.violation("common-unseen-policy", f"mode silent: warned {msgs[:1]}", case=case, key="common:warns-in-silent")
            elif exc is not None:
                m.violation("common-unseen-policy", f"{col} is not used by the common part but evaluation raised {type(exc).__name__}",
                            case=case, key="common:raises-untouched")
        # ---- group -------------------------------------------------------------------------
        Gm = dm.group
        if Gm is None:
            continue
        fac_hit = {nm: involves(t.factor.components) for nm, t in Gm.terms.items()}
        eff_hit = {nm: involves(getattr(t.expr, "components", [])) for nm, t in Gm.terms.items()}
        if not any(fac_hit.values()) and not any(eff_hit.values()):
            continue
        if any(fac_hit[nm] and eff_hit[nm] for nm in Gm.terms):
            m.note("planted-in-both-sides-of-a-group-term")
            continue
        m.ev("group-new-block")
        try:
            with warnings.catch_warnings():
                warnings.simplefilter("ignore")
                r = Gm.evaluate_new_data(new)
            exc = None
        except Exception as e:
            r, exc = None, e
        if mode == "error":
            if exc is None:
                m.violation("group-new-block", f"mode error: unseen level of {col} accepted by the group part", case=case,
                            key="group:error-not-raised") if any(eff_hit.values()) else m.note("group-error-mode-accepted-new-group")
            continue
        if exc is not None:
            m.violation("group-new-block", f"mode {mode}: raised {type(exc).__name__}: {exc}", case=case, key="group:raises-in-" + mode)
            continue
        ref = ref_group
        if ref is None:
            continue
        problems = []
        start = 0
        exp_factors = []
        for nm, t in Gm.terms.items():
            sl_ref = ref.slices[nm]
            B = np.asarray(ref.design_matrix[:, sl_ref], dtype=float).copy()
            ncell = len(t.groups)
            if ncell == 0 or B.shape[1] % ncell != 0:
                problems.append(("block", f"{nm}: with a seen level substituted the block has {B.shape[1]} columns for {ncell} groups"))
                start += B.shape[1]
                continue
            p = B.shape[1] // max(1, ncell)
            if fac_hit[nm]:
                E = B.reshape(n_new, ncell, p).sum(axis=1)  # effect values of every row
                B[onS, :] = 0.0
                extra = np.zeros((n_new, p))
                extra[onS, :] = E[onS, :]
                B = np.column_stack([B, extra])
                if t.factor.name not in exp_factors:
                    exp_factors.append(t.factor.name)
            elif eff_hit[nm]:
                B[onS, :] = 0.0
            sl = r.slices.get(nm)
            if sl is None or (sl.start, sl.stop) != (start, start + B.shape[1]):
                problems.append(("slices", f"{nm}: slice {sl} but columns {start}:{start + B.shape[1]} expected"))
            else:
                have = np.asarray(r.design_matrix[:, sl], dtype=float)
                if have.shape != B.shape or not np.allclose(have, B, rtol=1e-10, atol=1e-12, equal_nan=True):
                    problems.append(("block", f"{nm}: block differs from [existing cells (0 on rows with unseen groups) | one new block with the effect on exactly those rows]"))
            start += B.shape[1]
        if r.design_matrix.shape[1] != start:
            problems.append(("width", f"matrix has {r.design_matrix.shape[1]} columns, {start} expected"))
        if tuple(r.factors_with_new_levels) != tuple(exp_factors):
            problems.append(("factors", f"factors_with_new_levels={tuple(r.factors_with_new_levels)}, expected {tuple(exp_factors)}"))
        for kind, p_ in problems[:3]:
            m.violation("group-new-block", f"mode {mode}, unseen level of {col} on rows {S.tolist()}: {p_}", case=case, key="group:" + kind)
        m.cls("group-placement:" + ("factor" if any(fac_hit.values()) else "effect"),
              "group-terms-hit:%d" % sum(fac_hit.values()))
    formulae.config["EVAL_UNSEEN_CATEGORIES"] = "error"


def _first_bad(C, got, want):
    bad = np.argwhere(~np.isclose(got, want, rtol=1e-10, atol=1e-12, equal_nan=True))[0]
    for nm, sl in C.slices.items():
        if sl.start <= bad[1] < sl.stop:
            return f"term {nm}, row {int(bad[0])}: {got[tuple(bad)]!r} vs {want[tuple(bad)]!r}"
    return str(bad)


SPECIAL_FORMULAS = ["y ~ s", "y ~ x + x:s", "y ~ 0 + xz0:s + x", "y ~ h + h:s", "y ~ x + (1 | g)", "y ~ (0 + s | g)", "y ~ x + (x:s | g)",
                    "y ~ C(s, levels=lv_s)", "y ~ x + C(kbig)", "y ~ (1 | kbig)", "y ~ T(s, ref_s):x + (C(s, levels=lv_s) | g)"]
SPECIAL_KINDS = ["missing", "zero-product", "unseen", "two-unseen"]


def judge_special(seed, formula, kind, m):
    """Placements the random planting does not reach:
    missing       the new frame has a MISSING value in the factor (not a level: never counted as one)
    zero-product  the other factors of the term are zero on every new row (numeric 0 / reference level only):
                  the unseen level is still an unseen level
    unseen        explicit levels=, and integer levels beyond 2**53 next to the unseen one"""
    import warnings
    import formulae

    rng = np.random.default_rng(seed)
    n = 24
    s_lv, g_lv = ["a", "b", "c"], ["g1", "g2", "g3"]
    kb = [10 ** 17 + 1, 10 ** 17 + 2, 10 ** 17 + 3]
    df = pd.DataFrame({"y": rng.normal(size=n), "x": rng.normal(size=n), "xz0": rng.normal(size=n),
                       "s": pd.Series([s_lv[j % 3] for j in rng.permutation(n)], dtype="str"),
                       "h": pd.Series([["u", "v"][j % 2] for j in rng.permutation(n)], dtype="str"),
                       "g": pd.Series([g_lv[j % 3] for j in rng.permutation(n)], dtype="str"),
                       "kbig": np.array([kb[j % 3] for j in rng.permutation(n)], dtype="int64")})
    ns = {"lv_s": ["b", "c", "a"], "ref_s": "b"}
    case = {"special": True, "seed": seed, "formula": formula, "kind": kind}
    m.current_case = case
    formulae.config["EVAL_UNSEEN_CATEGORIES"] = "error"
    try:
        dm = formulae.design_matrices(formula, df, extra_namespace=ns)
    except Exception as e:
        m.note("design-raised:" + type(e).__name__)
        return
    col = "kbig" if "kbig" in formula else ("g" if kind != "zero-product" and "| g" in formula and "s" not in formula.replace("ys", "") else "s")
    if col == "s" and " s" not in formula and ":s" not in formula and "(s" not in formula and "s," not in formula:
        col = "g"
    new = df.iloc[rng.integers(0, n, size=8)].reset_index(drop=True)
    S = np.array([1, 4, 5])
    bad = new.copy()
    if kind == "missing":
        if col == "kbig":
            return
        bad[col] = pd.Series([np.nan if r in S else v for r, v in enumerate(bad[col].tolist())], dtype="str")
    elif kind == "two-unseen":
        # two different unseen values that cannot be compared with each other (text, a number, a missing value)
        if col == "kbig":
            return
        others = ["ZZ new", 17, None]
        vals = [others[list(S).index(r) % 3] if r in S else v for r, v in enumerate(bad[col].tolist())]
        bad[col] = pd.Series(vals, dtype=object)
    else:
        unseen = 10 ** 17 + 9 if col == "kbig" else "ZZ new"
        vals = [unseen if r in S else v for r, v in enumerate(bad[col].tolist())]
        bad[col] = np.array(vals, dtype="int64") if col == "kbig" else pd.Series(vals, dtype="str")
    if kind == "zero-product":
        # every other factor of the terms involving `col` is zero on every new row
        bad["x"], bad["xz0"], bad["h"] = 0.0, 0.0, pd.Series(["u"] * len(bad), dtype="str")
        new = new.assign(x=0.0, xz0=0.0, h=pd.Series(["u"] * len(new), dtype="str"))
    onS = np.zeros(len(bad), bool)
    onS[S] = True
    for mode in ("error", "warning", "silent"):
        formulae.config["EVAL_UNSEEN_CATEGORIES"] = mode
        for part_name in ("common", "group"):
            part = getattr(dm, part_name)
            if part is None:
                continue
            involved = [t for t in part.terms if col in t.replace("lv_s", "").replace("ref_s", "")]
            if not involved:
                continue
            contract = "common-unseen-policy" if part_name == "common" else "group-new-block"
            m.ev(contract)
            try:
                with warnings.catch_warnings(record=True) as w:
                    warnings.simplefilter("always")
                    res = part.evaluate_new_data(bad)
                exc = None
            except Exception as e:
                res, exc = None, e
            if mode == "error" and kind != "missing":
                if exc is None:
                    m.violation(contract, f"{formula} [{kind}]: mode error, unseen level of {col} on rows {S.tolist()} accepted by the {part_name} part",
                                case={**case, "mode": mode}, key=f"special:{part_name}:error-not-raised")
                continue
            if exc is not None:
                if mode != "error":
                    m.violation(contract, f"{formula} [{kind}]: mode {mode} raised {type(exc).__name__}: {exc}", case={**case, "mode": mode},
                                key=f"special:{part_name}:raises")
                continue
            X = np.asarray(res.design_matrix, dtype=float)
            with core.shadow():
                formulae.config["EVAL_UNSEEN_CATEGORIES"] = "error"
                ref = np.asarray(part.evaluate_new_data(new).design_matrix, dtype=float)
                formulae.config["EVAL_UNSEEN_CATEGORIES"] = mode
            for t in involved:
                sl = part.slices[t]
                blk = X[:, sl] if part_name == "common" else X[:, sl.start: sl.start + (ref.shape[1] and (sl.stop - sl.start))]
                width = min(blk.shape[1], ref[:, sl].shape[1])
                # rows without the planted value are what they are in the unplanted frame
                if not np.allclose(blk[~onS, :width], ref[~onS][:, sl][:, :width], equal_nan=True):
                    m.violation(contract, f"{formula} [{kind}], mode {mode}: term {t} changed on rows that do not hold the planted value",
                                case={**case, "mode": mode}, key=f"special:{part_name}:other-rows")
                # rows with the planted value are in none of the existing levels / groups (0 or missing)
                cells = blk[onS, :width]
                if np.any(np.nan_to_num(cells, nan=0.0) != 0):
                    m.violation(contract, f"{formula} [{kind}], mode {mode}: on the rows where {col} is {'missing' if kind == 'missing' else 'unseen'} "
                                f"term {t} is non-zero in the columns of existing levels / groups", case={**case, "mode": mode},
                                key=f"special:{part_name}:counted-as-existing")
            if mode == "warning" and kind != "missing":
                msgs = [str(x.message) for x in w if issubclass(x.category, UserWarning)]
                if not msgs:
                    m.violation(contract, f"{formula} [{kind}]: mode warning, unseen level of {col} in the {part_name} part: no UserWarning",
                                case={**case, "mode": mode}, key=f"special:{part_name}:no-warning")
    formulae.config["EVAL_UNSEEN_CATEGORIES"] = "error"


def run_shard(i, n, tier, seed, m):
    k = 0
    for formula in SPECIAL_FORMULAS:
        for kind in SPECIAL_KINDS:
            for rep in range(1 if tier == "quick" else 6):
                k += 1
                if k % n != i:
                    continue
                sd = seed * 613 + k * 7 + rep
                m.case({"special": True, "seed": sd, "formula": formula, "kind": kind}, canon=[formula, kind, sd], nontrivial=True)
                core.guarded(judge_special)(sd, formula, kind, m)
    if i == 0:
        m.case({"config": "exhaustive driver"}, canon="config-driver")
        core.guarded(config_driver)(m)
    rng = random.Random(seed * 1000003 + i * 37 + 10)
    ncases = (2000 if tier == "quick" else 30000) // n
    for k in range(ncases):
        case = D.random_case(rng, profile="stateful" if k % 2 else "plain", hostile=(k % 5 == 0),
                             group_p=0.7, min_rows=6, with_refs=True)
        text = D.formula_text(case)
        m.case({**case, "text": text}, canon=[text, case["frame"]["seed"]], nontrivial=True)
        judge(case, m)


def replay(rec, m):
    register_hooks(m)
    if rec["case"].get("special"):
        return judge_special(rec["case"]["seed"], rec["case"]["formula"], rec["case"]["kind"], m)
    if "config" in rec["case"] or "config_state" in rec["case"]:
        config_driver(m)
    else:
        judge(rec["case"], m)
