"""C06 - evaluating new data reproduces the training encoding.

Deciding monitor (boundary): post-condition on every evaluate_new_data of a common / group matrix:
  self-evaluation     a shadow evaluation of the matrix's OWN training rows train.iloc[idx] (subset,
                      permutation, repetition, single row, all rows of one level) equals
                      design_matrix[idx], with the same number of columns
  newdata-evaluates   the driver's evaluation on rows of the training frame returns
White-box trace (secondary): fit-once (parameters of every stateful transform instance never change
after its first call), frozen-coding (levels / contrast matrix of a component never change in
eval_new_data).
"""
import copy
import random

import numpy as np
import pandas as pd

from fmon import core, attach
from workloads import designs as D

PROP = "C06"
DECIDING = ["self-evaluation", "newdata-evaluates", "caller-objects-not-aliased"]
STATE = {"n": 0}


def spec(tier):
    return {
        "level": "exploration",
        "deciding": DECIDING,
        "timeout": 900 if tier == "quick" else 5400,
        "w0": True,
        "rule": (
            "seeded random designs over plain and stateful atoms (center, scale, standardize, nested and "
            "interacting transforms, bs, poly, user functions), C/T/S codings with explicit references and "
            "levels=, ordered categoricals, group-specific terms (numeric, categorical, mixed effects, interaction "
            "factors, `|` distributed over sums); every evaluate_new_data call triggers 5 shadow self-evaluations "
            "on row multisets of the training frame (random subset, permutation, repetition, single row, all rows "
            "of one level / lacking one level), the driver adds the empty selection; bool / nullable / float32 columns; "
            "histories in which the caller reverses / extends / empties / rebinds the list and array it passed as "
            "levels= / knots= after the build. distinct = distinct (formula, frame seed); non-trivial = at least "
            "one stateful transform, categorical factor or group term. W0: the repository's tests under the same "
            "contract (advisory there: user functions in tests may ignore their input)."
        ),
        "assumptions": [
            "equality of two evaluations of the same arithmetic: rtol 1e-10",
            "relational contract judged on driver-made calls; on calls made by the repository's tests it is advisory",
        ],
        "classify": lambda v: v.get("key"),
    }


def row_multisets(train, rng):
    n = len(train)
    out = []
    k = int(rng.integers(1, n + 1))
    out.append(("subset", np.sort(rng.choice(n, size=k, replace=False))))
    out.append(("permutation", rng.permutation(n)))
    out.append(("repetition", rng.integers(0, n, size=int(rng.integers(1, n + 4)))))
    out.append(("single-row", np.array([int(rng.integers(0, n))])))
    # all rows of one level / all rows lacking one level of some non-numeric column
    cats = [c for c in train.columns if not pd.api.types.is_numeric_dtype(train[c])]
    ints = [c for c in train.columns if pd.api.types.is_integer_dtype(train[c]) and train[c].nunique() <= 6]
    pool = cats + ints
    if pool:
        c = pool[int(rng.integers(0, len(pool)))]
        vals = train[c].tolist()
        lv = vals[int(rng.integers(0, n))]
        same = np.flatnonzero(np.array([v == lv for v in vals]))
        other = np.flatnonzero(np.array([v != lv for v in vals]))
        out.append(("one-level", same))
        if len(other):
            out.append(("lacking-one-level", other))
    return out


def hook_end_post(kind, matrix, new_data, result):
    if kind not in ("common", "group"):
        return
    m = core.mon()
    train = matrix.data
    if train is None or len(train) == 0:
        return
    STATE["n"] += 1
    rng = np.random.default_rng(STATE["n"] * 7919 + 3)
    orig = attach.ORIG[kind + "_end"]
    X = np.asarray(matrix.design_matrix, dtype=float)
    advisory = m.foreign
    sets = row_multisets(train, rng)
    sets.append(("retyped-categoricals", sets[0][1]))
    for what, idx in sets:
        sub = train.iloc[idx]
        if rng.random() < 0.5:
            sub = sub.reset_index(drop=True)
        if what == "retyped-categoricals":
            # the same values, but categorical columns arrive with another dtype: categories reordered,
            # unused categories removed, or plain objects
            sub = sub.copy()
            for c in sub.columns:
                if isinstance(sub[c].dtype, pd.CategoricalDtype):
                    how = int(rng.integers(0, 3))
                    if how == 0:
                        sub[c] = sub[c].astype(object)
                    elif how == 1:
                        sub[c] = sub[c].cat.remove_unused_categories()
                    else:
                        sub[c] = sub[c].cat.reorder_categories(list(sub[c].cat.categories)[::-1])
        m.ev("self-evaluation")
        m.cls("rows:" + what)
        try:
            with core.shadow():
                r = orig(matrix, sub)
            got = np.asarray(r.design_matrix, dtype=float)
        except Exception as e:
            m.violation("self-evaluation", f"{kind}: evaluating {what} rows of the training frame raised "
                        f"{type(e).__name__}: {e}", key="raises:" + type(e).__name__, advisory=advisory)
            continue
        want = X[idx]
        if got.shape != want.shape:
            m.violation("self-evaluation", f"{kind}: {what} rows give shape {got.shape}, training rows have {want.shape}",
                        key="shape", advisory=advisory)
        elif not np.allclose(got, want, rtol=1e-10, atol=1e-12, equal_nan=True):
            j = int(np.argmax(~np.isclose(got, want, rtol=1e-10, atol=1e-12, equal_nan=True).all(axis=0)))
            name = _column_term(matrix, j)
            m.violation("self-evaluation", f"{kind}: {what} rows differ from the training rows in column {j} (term {name})",
                        key="values", advisory=advisory)


def _column_term(matrix, j):
    for name, sl in matrix.slices.items():
        if sl.start <= j < sl.stop:
            return name
    return "?"


def _snap(obj):
    out = {}
    for k, v in vars(obj).items():
        if k.startswith("_fmon"):
            continue
        out[k] = copy.deepcopy(v)
    return out


def _same(a, b):
    if isinstance(a, dict) and isinstance(b, dict):
        return a.keys() == b.keys() and all(_same(a[k], b[k]) for k in a)
    if isinstance(a, np.ndarray) or isinstance(b, np.ndarray):
        try:
            return np.array_equal(np.asarray(a), np.asarray(b), equal_nan=True)
        except Exception:
            return False
    if isinstance(a, (float, np.floating)) and isinstance(b, (float, np.floating)):
        return bool(a == b) or (np.isnan(a) and np.isnan(b))
    try:
        return bool(a == b)
    except Exception:
        return a is b


def install_whitebox(m):
    try:
        from formulae.transforms import TRANSFORMS
        from formulae.terms.variable import Variable
        from formulae.terms.call import Call
    except Exception:
        m.note("attach-missing:transforms/components")
        return
    done = set()
    for name, cls in list(TRANSFORMS.items()):
        if not (isinstance(cls, type) and getattr(cls, "__stateful_transform__", False)) or cls in done:
            continue
        done.add(cls)
        orig = cls.__call__

        def __call__(self, *a, __orig=orig, __name=name, **k):
            mm = core.mon()
            first = "_fmon_params" not in self.__dict__
            r = __orig(self, *a, **k)
            mm.attach["transform:" + __name] += 1
            if first:
                self.__dict__["_fmon_params"] = _snap(self)
            else:
                mm.ev("wb-fit-once")
                if not _same(self.__dict__["_fmon_params"], _snap(self)):
                    mm.violation("wb-fit-once", f"parameters of a {__name} instance changed on a later call",
                                 key="fit-once:" + __name)
                    self.__dict__["_fmon_params"] = _snap(self)
            return r

        cls.__call__ = __call__
    for cls in (Variable, Call):
        orig = cls.eval_new_data

        def eval_new_data(self, data_mask, __orig=orig):
            mm = core.mon()
            before = (copy.copy(self.levels), None if self.contrast_matrix is None else self.contrast_matrix.matrix.copy())
            r = __orig(self, data_mask)
            mm.ev("wb-frozen-coding")
            after_m = None if self.contrast_matrix is None else self.contrast_matrix.matrix
            if before[0] != self.levels or not _same(before[1], after_m):
                mm.violation("wb-frozen-coding", f"levels / contrast matrix of {self.name} changed during eval_new_data",
                             key="frozen-coding")
            return r

        cls.eval_new_data = eval_new_data


def register_hooks(m, foreign=False):
    attach.HOOKS["end_post"].append(hook_end_post)
    install_whitebox(m)


LAST = {}


def judge(case, m):
    text = D.formula_text(case)
    case = {**case, "text": text}
    m.current_case = case
    earlier = LAST.pop("design", None)
    try:
        dm, df, meta, _ = D.run_design(case)
    except Exception as e:
        m.note("design-raised:" + type(e).__name__)
        return
    LAST["design"] = (dm, df, case)
    if case.get("same_formula_as_previous") and earlier is not None:
        # a later design built from the SAME formula text on other data must not disturb the earlier one:
        # evaluate the earlier design on its own training rows again (the hook's self-evaluations decide)
        edm, edf, ecase = earlier
        m.current_case = {**ecase, "evaluated_after_later_build_of_same_formula": True}
        m.cls("earlier-design-re-evaluated")
        for part in (edm.common, edm.group):
            if part is not None:
                try:
                    part.evaluate_new_data(edf.iloc[: max(1, len(edf) // 2)])
                except Exception as e:
                    m.violation("newdata-evaluates", f"earlier design: {type(e).__name__}: {e}", key="earlier:raises")
        m.current_case = case
    rng = np.random.default_rng(case["frame"]["seed"] + 2)
    idx = rng.integers(0, len(df), size=int(rng.integers(1, len(df) + 2)))
    new = df.iloc[idx].copy()
    for kind, part in (("common", dm.common), ("group", dm.group)):
        if part is None:
            continue
        new = df.iloc[idx].copy()
        m.ev("newdata-evaluates")
        try:
            r = part.evaluate_new_data(new)
            got = np.asarray(r.design_matrix, dtype=float)
            want = np.asarray(part.design_matrix, dtype=float)[idx]
            if got.shape != want.shape or not np.allclose(got, want, rtol=1e-10, atol=1e-12, equal_nan=True):
                m.violation("newdata-evaluates", f"{kind}: rows {idx[:8].tolist()}... of the training frame do not "
                            "reproduce the training rows", case=case, key="driver-values")
        except Exception as e:
            m.violation("newdata-evaluates", f"{kind}: {type(e).__name__}: {e}", case=case, key="raises:" + type(e).__name__)
            continue
        # the caller changes the SAME frame object in place (other rows of the training frame) and asks again
        idx2 = rng.integers(0, len(df), size=len(idx))
        m.ev("newdata-evaluates")
        try:
            # (raw entry point, so that no monitor-made evaluation sits between the two calls on this object)
            raw = attach.ORIG[kind + "_end"]
            with core.shadow():
                raw(part, new)
            for c in new.columns:
                new[c] = df[c].iloc[idx2].to_numpy() if not isinstance(df[c].dtype, pd.CategoricalDtype) else \
                    pd.Categorical(df[c].iloc[idx2].tolist(), categories=df[c].dtype.categories, ordered=df[c].dtype.ordered)
            with core.shadow():
                got2 = np.asarray(raw(part, new).design_matrix, dtype=float)
            want2 = np.asarray(part.design_matrix, dtype=float)[idx2]
            if got2.shape != want2.shape or not np.allclose(got2, want2, rtol=1e-10, atol=1e-12, equal_nan=True):
                m.violation("newdata-evaluates", f"{kind}: the same frame object, changed in place, still gives the rows evaluated before",
                            case=case, key="stale-after-inplace-change")
        except Exception as e:
            m.violation("newdata-evaluates", f"{kind}: {type(e).__name__}: {e}", case=case, key="raises:" + type(e).__name__)
    # the empty selection of rows is a selection of rows: no row, the same columns (splines refuse an empty
    # input by an explicit check: observed, not judged)
    if "bs(" not in text:
        for kind, part in (("common", dm.common), ("group", dm.group)):
            if part is None:
                continue
            m.ev("newdata-evaluates")
            try:
                got0 = np.asarray(part.evaluate_new_data(df.iloc[:0]).design_matrix)
                if got0.shape != (0, np.asarray(part.design_matrix).shape[1]):
                    m.violation("newdata-evaluates", f"{kind}: no rows of the training frame give a matrix of shape {got0.shape}, "
                                f"(0, {np.asarray(part.design_matrix).shape[1]}) expected", case=case, key="empty-selection:shape")
            except Exception as e:
                m.violation("newdata-evaluates", f"{kind}: no rows of the training frame: {type(e).__name__}: {e}", case=case,
                            key="empty-selection:raises")
    for t in case["terms"]:
        for a in t:
            m.cls("atom:" + a.split("(")[0])
    m.cls("group-terms:%d" % len(case.get("group", [])))


SPECIAL = [
    # | distributed over a sum with one intercept removed (shared effect object)
    ("y ~ (s | g + h) - (1 | g)", None),
    ("y ~ (x + s | g + g2) - (1 | g2)", None),
    ("y ~ (0 + s | g) + (s | g2)", None),
    ("y ~ C(k, levels=lv_k) + x", None),
    ("y ~ C(co) + S(co) + T(co)", None),
    ("y ~ scale(x):s + (scale(x) | g)", None),
    ("y ~ I(center(x) ** 2) + center(x) + (center(x) | g)", None),
    ("y ~ poly(x, 3) + poly(x, 2) + bs(x, df=6, degree=2):h", None),
    ("y ~ (bs(x, df=4) | g) + (0 + poly(z, 2) | g2)", None),
    ("y ~ C(k, Sum):C(s, Treatment) + (C(k) | g)", None),
]


def judge_text(text, frame, m):
    import formulae

    df, meta = D.case_frame(frame)
    case = {"text": text, "frame": frame, "special": True}
    m.current_case = case
    try:
        dm = formulae.design_matrices(text, df, extra_namespace=D.namespace(meta))
    except Exception as e:
        m.note("design-raised:" + type(e).__name__)
        return
    rng = np.random.default_rng(frame["seed"] + 2)
    idx = rng.integers(0, len(df), size=max(1, len(df) // 2))
    for kind, part in (("common", dm.common), ("group", dm.group)):
        if part is None:
            continue
        m.ev("newdata-evaluates")
        try:
            part.evaluate_new_data(df.iloc[idx])
        except Exception as e:
            m.violation("newdata-evaluates", f"{kind}: {type(e).__name__}: {e}", case=case, key="raises:" + type(e).__name__)


CALLER_FORMULAS = ["y ~ C(s, levels=lv)", "y ~ 0 + x + C(s, levels=lv):x", "y ~ x + (C(s, levels=lv) | g)",
                   "y ~ bs(x, knots=kn)", "y ~ C(s, levels=lv) + bs(x, knots=kn, degree=2):h"]
CALLER_CHANGES = ["reverse", "extend", "clear", "rebind"]


def judge_caller_objects(frame, formula, change, m):
    """Frozen at training time: the objects the caller passed as arguments (a levels list, a knots array)
    belong to the caller, who may reuse them afterwards - reverse, extend or empty them in place, or bind the
    name to something else. The design must not notice."""
    import formulae

    df, meta = D.case_frame(frame)
    case = {"formula": formula, "frame": frame, "change": change, "caller_objects": True}
    m.current_case = case
    lv = sorted(set(df["s"]), reverse=True)
    kn = np.quantile(df["x"].to_numpy(), [0.3, 0.6])
    ns = {"lv": lv, "kn": kn}
    try:
        dm = formulae.design_matrices(formula, df, extra_namespace=ns)
    except Exception as e:
        m.note("design-raised:" + type(e).__name__)
        return
    before = {k: np.array(np.asarray(p.design_matrix), dtype=float) for k, p in (("common", dm.common), ("group", dm.group)) if p is not None}
    if change == "reverse":
        lv.reverse(); kn[:] = kn[::-1].copy()
    elif change == "extend":
        lv.append("never seen"); kn += 0.25
    elif change == "clear":
        lv.clear(); kn[:] = 0.0
    else:
        ns["lv"] = list(reversed(lv)); ns["kn"] = kn[::-1] + 1.0
    for kind, part in (("common", dm.common), ("group", dm.group)):
        if part is None:
            continue
        m.ev("caller-objects-not-aliased")
        try:
            got = np.array(np.asarray(part.evaluate_new_data(df).design_matrix), dtype=float)
        except Exception as e:
            m.violation("caller-objects-not-aliased", f"{formula}: after the caller's '{change}' of its own lv / kn, evaluating the training "
                        f"frame raised {type(e).__name__}: {e}", case=case, key="caller-objects:raises")
            continue
        if got.shape != before[kind].shape or not np.allclose(got, before[kind], rtol=1e-10, atol=1e-12):
            m.violation("caller-objects-not-aliased", f"{formula}: after the caller's '{change}' of its own lv / kn the {kind} matrix of the "
                        "training frame is no longer reproduced", case=case, key="caller-objects:" + kind)
        if not np.array_equal(np.asarray(part.design_matrix, dtype=float), before[kind]):
            m.violation("caller-objects-not-aliased", f"{formula}: the training {kind} matrix itself changed", case=case, key="caller-objects:training")


def run_shard(i, n, tier, seed, m):
    k = 0
    for formula in CALLER_FORMULAS:
        for change in CALLER_CHANGES:
            for rep in range(1 if tier == "quick" else 8):
                k += 1
                if k % n != i:
                    continue
                frame = {"seed": seed * 977 + k * 13 + 5, "hostile": rep % 2 == 1, "min_rows": 12, "max_rows": 40}
                m.case({"formula": formula, "change": change, "frame": frame, "caller_objects": True}, canon=[formula, change, frame["seed"]], nontrivial=True)
                core.guarded(judge_caller_objects)(frame, formula, change, m)
    rng = random.Random(seed * 1000003 + i * 17 + 6)
    ncases = (3000 if tier == "quick" else 40000) // n
    prev = None
    for k in range(ncases):
        case = D.random_case(rng, profile="stateful", hostile=(k % 4 == 0), group_p=0.5, min_rows=2,
                             with_refs=True)
        if k % 4 == 3 and prev is not None and not prev.get("with_refs_used"):
            case = {**prev, "frame": case["frame"], "same_formula_as_previous": True}
        prev = case
        text = D.formula_text(case)
        nontrivial = bool(case["group"]) or any("(" in a or a in D.CAT_VARS for t in case["terms"] for a in t)
        m.case({**case, "text": text}, canon=[text, case["frame"]["seed"]], nontrivial=nontrivial)
        judge(case, m)
    for j, (text, _) in enumerate(SPECIAL):
        for rep in range(2 if tier == "quick" else 20):
            if (j + rep) % n != i:
                continue
            frame = {"seed": seed * 1000 + j * 50 + rep + 1, "hostile": False, "min_rows": 6, "max_rows": 40}
            m.case({"text": text, "frame": frame, "special": True}, canon=[text, frame["seed"]])
            judge_text(text, frame, m)


def replay(rec, m):
    register_hooks(m)
    case = rec["case"]
    if case.get("caller_objects"):
        judge_caller_objects(case["frame"], case["formula"], case["change"], m)
    elif case.get("special"):
        judge_text(case["text"], case["frame"], m)
    else:
        judge(case, m)
