"""C08 - row equivariance and independence from irrelevant frame structure.

Deciding monitor (boundary, relational): for a design built by the driver, shadow designs of the
real code on transformed frames must agree:
  row-permutation       matrices are row-permuted, nothing else changes (labels, slices, levels,
                        fitted parameters as seen through evaluate_new_data on a fixed probe frame)
  index-relabelling     non-unique ints / strings / reversed / MultiIndex / datetimes: no effect
  column-order          reordering the columns: no effect
  unused-columns        adding (all-NaN, object, duplicated) or removing unmentioned columns: no effect
"""
import random

import numpy as np
import pandas as pd

from fmon import core, attach
from workloads import designs as D

PROP = "C08"
DECIDING = ["row-permutation", "index-relabelling", "column-order", "unused-columns"]


def spec(tier):
    return {
        "level": "exploration",
        "deciding": DECIDING,
        "timeout": 900 if tier == "quick" else 5400,
        "rule": (
            "seeded random designs (plain and stateful atoms, codings with references, operator-written formulas, "
            "group-specific terms; frames of 2..40 rows, a quarter with hostile level names) x 6 shadow "
            "transformations each (row permutation with and without index reset, one of five index relabellings, "
            "column reorder, unused columns added, unused columns removed); fitted parameters compared through "
            "evaluate_new_data on a fixed probe frame; formulas that use no column of the frame, on frames down to zero "
            "columns. distinct = distinct (formula, frame seed); non-trivial = a "
            "categorical factor, stateful transform or group term is present."
        ),
        "assumptions": [
            "matrices compared with rtol 1e-9 (mean/std of permuted data legitimately reassociate); labels, slices, levels exactly",
            "all callables in the generated formulas are deterministic and row-wise",
        ],
        "classify": lambda v: v.get("key"),
    }


def signature(dm, probe):
    sig = {}
    sig["response"] = None if dm.response is None else np.asarray(dm.response.design_matrix, dtype=float)
    sig["response_levels"] = None if dm.response is None else dm.response.levels
    for nm, part in (("common", dm.common), ("group", dm.group)):
        if part is None:
            sig[nm] = None
            continue
        sig[nm] = np.asarray(part.design_matrix, dtype=float)
        sig[nm + "_terms"] = list(part.terms)
        sig[nm + "_slices"] = [(k, v.start, v.stop) for k, v in part.slices.items()]
        sig[nm + "_labels"] = [list(t.labels) for t in part.terms.values()]
        if nm == "group":
            sig["group_groups"] = [list(t.groups) for t in part.terms.values()]
        try:
            with core.shadow():
                r = part.evaluate_new_data(probe)
            sig[nm + "_probe"] = np.asarray(r.design_matrix, dtype=float)
        except Exception as e:
            sig[nm + "_probe"] = "raise:" + type(e).__name__
    return sig


def compare(a, b, perm=None):
    """First difference between two signatures (b computed on the frame permuted by perm)."""
    for k in a:
        va, vb = a[k], b.get(k)
        if isinstance(va, np.ndarray):
            if not isinstance(vb, np.ndarray):
                return f"{k}: {type(vb).__name__} instead of a matrix"
            if perm is not None and not k.endswith("_probe") and (len(perm) != len(va) or (len(perm) and perm.max() >= len(va))):
                return f"{k}: {len(va)} rows where {len(perm)} rows are retained"
            want = va[perm] if (perm is not None and not k.endswith("_probe")) else va
            if want.shape != vb.shape:
                return f"{k}: shape {vb.shape} vs {want.shape}"
            if not np.allclose(want, vb, rtol=1e-9, atol=1e-11, equal_nan=True):
                bad = np.argwhere(~np.isclose(want, vb, rtol=1e-9, atol=1e-11, equal_nan=True))[0]
                return f"{k}: entry {tuple(int(x) for x in bad)} is {vb[tuple(bad)]!r}, expected {want[tuple(bad)]!r}"
        elif va != vb:
            return f"{k}: {vb!r} vs {va!r}"
    return None


def reindexed(df, rng, which):
    n = len(df)
    out = df.copy()
    if which == 0:
        idx = np.repeat(np.arange((n + 1) // 2), 2)[:n]
        rng.shuffle(idx)
        out.index = pd.Index(idx)
    elif which == 1:
        out.index = pd.Index([f"row-{(i * 7) % n}-{i}" for i in range(n)])
    elif which == 2:
        out.index = pd.RangeIndex(n - 1, -1, -1)
    elif which == 3:
        out.index = pd.MultiIndex.from_arrays([np.arange(n) % 3, np.arange(n)[::-1]], names=["a", "b"])
    elif which == 4:
        out.index = pd.date_range("2020-01-01", periods=n, freq="D")[::-1]
    elif which == 5:  # labels that are missing values themselves
        lab = np.arange(n, dtype=float)
        lab[:: max(1, n // 3)] = np.nan
        out.index = pd.Index(lab)
    elif which == 6:  # an index called like a column of the frame
        out.index = pd.Index(np.arange(n)[::-1], name="x")
    elif which == 8:  # ... or like a variable of the caller's namespace that formulas use as an argument
        out.index = pd.Index(np.arange(n)[::-1] + 100, name=["pw", "gain", "kn_x", "lv_k"][n % 4])
    else:
        out.index = pd.Index([None if i % 4 == 1 else f"k{i}" for i in range(n)], dtype=object, name="s")
    return out


def judge(case, m):
    import formulae

    df, meta = D.case_frame(case["frame"])
    text = D.formula_text(case)
    case = {**case, "text": text}
    m.current_case = case
    ns = D.namespace(meta)
    used = set()
    for t in case["terms"] + [g["factor"] for g in case.get("group", [])] + \
            [g["effect"] for g in case.get("group", []) if g["effect"] != "1"]:
        for a in t:
            used.update(D.atom(a, meta).vars)
    if case.get("resp"):
        used.add(case["resp"])
    na_action = case.get("na_action", "drop")
    rng = np.random.default_rng(case["frame"]["seed"] + 8)
    # missing values in used columns: the row filter must be positional, whatever the index
    if case.get("nan") and used:
        cands = sorted(c for c in used if c in df.columns and (na_action == "drop" or meta[c]["kind"] in ("num", "pos")))
        if cands:
            c = cands[int(rng.integers(0, len(cands)))]
            rows = rng.choice(len(df), size=min(len(df) - 1, int(rng.integers(1, 4))), replace=False)
            if meta[c]["kind"] in ("int", "code", "bool", "nint", "nfloat"):
                df[c] = df[c].astype(float)
            df.loc[df.index[rows], c] = np.nan
            m.cls("nan-in:" + meta[c]["kind"])
    complete = df[sorted(c for c in used if c in df.columns)].notna().all(axis=1).to_numpy() if used else np.ones(len(df), bool)
    try:
        dm = formulae.design_matrices(text, df, na_action=na_action, extra_namespace=ns)
        base_raised = None
    except Exception as e:
        if not (na_action == "error" and not complete.all() and isinstance(e, ValueError)):
            m.note("design-raised:" + type(e).__name__)
            # removing the columns the formula does not mention must not turn a refusal into a design
            keep = [c for c in df.columns if c in used]
            if keep and len(keep) < len(df.columns):
                m.ev("unused-columns")
                try:
                    with core.shadow():
                        attach.ORIG["design_matrices"](text, df[keep], na_action, 0, ns)
                    m.violation("unused-columns", f"refused ({type(e).__name__}: {e}) but accepted once the unused "
                                f"columns are removed", case={**case, "transform": "unused columns removed"},
                                key="unused-columns:refusal-depends-on-unused")
                except Exception:
                    pass
            return
        base_raised = e  # the documented refusal: every transformed frame must be refused as well
    kept = np.flatnonzero(complete) if na_action == "drop" else np.arange(len(df))
    pos = {int(r): j for j, r in enumerate(kept)}
    probe = df.iloc[kept[: min(5, len(kept))]].copy() if len(kept) else df.iloc[:0]
    if na_action == "pass":
        probe = df.iloc[np.flatnonzero(complete)[:5]].copy()
    base = signature(dm, probe) if base_raised is None else None
    m.cls("na_action:" + na_action)
    used = set()
    for t in case["terms"] + [g["factor"] for g in case.get("group", [])] + \
            [g["effect"] for g in case.get("group", []) if g["effect"] != "1"]:
        for a in t:
            used.update(D.atom(a, meta).vars)
    if case.get("resp"):
        used.add(case["resp"])
    orig = attach.ORIG["design_matrices"]

    def shadow_design(frame):
        with core.shadow():
            return orig(text, frame, na_action, 0, ns)

    def run(contract, frame, perm=None, what=""):
        m.ev(contract)
        if perm is not None:  # positions, among the rows the base design kept, of the kept permuted rows
            perm = np.array([pos[int(r)] for r in perm if int(r) in pos], dtype=int)
        try:
            dm2 = shadow_design(frame)
        except Exception as e:
            if base_raised is not None:
                return
            m.violation(contract, f"{what}: the transformed frame raises {type(e).__name__}: {e}", case={**case, "transform": what},
                        key=contract + ":raises")
            return
        if base_raised is not None:
            m.violation(contract, f"{what}: accepted although the original frame is refused ({base_raised})",
                        case={**case, "transform": what}, key=contract + ":accepts")
            return
        diff = compare(base, signature(dm2, probe), perm)
        if diff:
            m.violation(contract, f"{what}: {diff}", case={**case, "transform": what}, key=contract + ":" + diff.split(":")[0])

    n = len(df)
    perm = rng.permutation(n)
    run("row-permutation", df.iloc[perm], perm, "rows permuted (index labels kept)")
    perm2 = rng.permutation(n)
    run("row-permutation", df.iloc[perm2].reset_index(drop=True), perm2, "rows permuted, index reset")
    which = int(rng.integers(0, 9))
    run("index-relabelling", reindexed(df, rng, which), None, ["non-unique ints", "strings", "reversed range", "MultiIndex", "datetimes",
                                                               "NaN labels", "index named like a column", "None labels, named like a column",
                                                               "index named like a namespace variable"][which])
    cols = list(df.columns)
    rng.shuffle(cols)
    run("column-order", df[cols], None, "columns shuffled")
    more = df.copy()
    more["junk_nan"] = np.nan
    more["junk_obj"] = pd.Series([("t", i) for i in range(n)], dtype=object, index=more.index)
    more["junk_dup"] = more["x"].to_numpy()
    more.insert(0, "junk_first", np.arange(n)[::-1])
    # unused columns NAMED like the string literals / keyword names / callees of the formula, full of NaN:
    # only names in expression position are variables
    from fmon.ref import grammar as G

    try:
        toks = G.tokenize(text, add_intercept=False)
        for t in toks:
            nm = t.value if t.kind == "STR" else (t.lex if t.kind == "ID" else None)
            if nm and nm not in more.columns and nm not in used and (t.kind == "STR" or nm in ("levels", "ref", "omit", "df", "degree",
                                                                      "knots", "by", "raw", "intercept", "np")):
                more[nm] = np.nan
    except G.NotSentence:
        pass
    run("unused-columns", more, None, "unused columns added")
    keep = [c for c in df.columns if c in used]
    if keep:
        run("unused-columns", df[keep], None, "unused columns removed")
    m.cls("group-terms:%d" % len(case.get("group", [])), "rows:%s" % ("1-5" if n <= 5 else "6+"))
    for t in case["terms"]:
        for a in t:
            m.cls("atom:" + a.split("(")[0])


NOCOL_FORMULAS = ["1", "I(yy) ~ 1", "I(yy) ~ I(zz)", "I(yy) ~ 0 + I(zz) + np.log(ww)", "I(yy) ~ I(zz * 2):I(ww)"]


def judge_no_columns(seed, formula, m):
    """A formula that mentions no column of the frame (all its variables come from the namespace): every
    column of the frame is unused, so removing any of them - all of them too - changes nothing."""
    import formulae

    rng = np.random.default_rng(seed)
    n = int(rng.integers(3, 12))
    ns = {"yy": rng.normal(size=n), "zz": rng.normal(size=n), "ww": rng.uniform(1, 2, size=n)}
    df = pd.DataFrame({"u1": rng.normal(size=n), "u2": list("ab" * n)[:n], "u3": np.arange(n)},
                      index=pd.Index([f"r{j}" for j in range(n)]) if seed % 2 else None)
    case = {"text": formula, "seed": seed, "no_columns": True}
    m.current_case = case
    try:
        base = formulae.design_matrices(formula, df, extra_namespace=ns)
        base_sig, base_exc = signature(base, df.iloc[:0]), None
    except Exception as e:
        base_sig, base_exc = None, e
    for keep in (["u1", "u2"], ["u3"], []):
        m.ev("unused-columns")
        try:
            with core.shadow():
                other = attach.ORIG["design_matrices"](formula, df[keep], "drop", 0, ns)
            sig, exc = signature(other, df[keep].iloc[:0]), None
        except Exception as e:
            sig, exc = None, e
        if (base_exc is None) != (exc is None):
            m.violation("unused-columns", f"{formula!r} (no column of the frame is used): with all columns "
                        f"{'accepted' if base_exc is None else 'refused: ' + repr(base_exc)}, with columns {keep} "
                        f"{'accepted' if exc is None else 'refused: ' + repr(exc)}", case={**case, "keep": keep},
                        key="unused-columns:no-column-used")
        elif exc is None:
            for k in ("response", "common"):
                a, b = base_sig[k], sig[k]
                if (a is None) != (b is None) or (a is not None and (a.shape != b.shape or not np.array_equal(a, b))):
                    m.violation("unused-columns", f"{formula!r}: {k} differs once the frame only has the columns {keep}",
                                case={**case, "keep": keep}, key="unused-columns:no-column-used-values")


def run_shard(i, n, tier, seed, m):
    for j, formula in enumerate(NOCOL_FORMULAS):
        for rep in range(2 if tier == "quick" else 12):
            if (j * 12 + rep) % n != i:
                continue
            sd = seed * 131 + j * 17 + rep
            m.case({"text": formula, "seed": sd, "no_columns": True}, canon=[formula, sd], nontrivial=True)
            core.guarded(judge_no_columns)(sd, formula, m)
    rng = random.Random(seed * 1000003 + i * 23 + 8)
    ncases = (2000 if tier == "quick" else 30000) // n
    for k in range(ncases):
        # orthogonal polynomials / splines of degree >= number of points are numerically meaningless
        # (and not equivariant for that reason alone): stateful profiles get at least 8 rows
        case = D.random_case(rng, profile="stateful" if k % 3 else "plain", hostile=(k % 4 == 0), group_p=0.5,
                             min_rows=8 if k % 3 else 2, with_refs=(k % 3 != 0))
        case["na_action"] = rng.choice(["drop", "drop", "drop", "error", "pass"])
        case["nan"] = rng.random() < 0.35
        text = D.formula_text(case)
        nontrivial = bool(case["group"]) or any("(" in a or a in D.CAT_VARS for t in case["terms"] for a in t)
        m.case({**case, "text": text}, canon=[text, case["frame"]["seed"]], nontrivial=nontrivial)
        judge(case, m)


def replay(rec, m):
    if rec["case"].get("no_columns"):
        return judge_no_columns(rec["case"]["seed"], rec["case"]["text"], m)
    judge(rec["case"], m)
