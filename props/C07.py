"""C07 - designs are isolated: no state leaks across evaluations, designs or calls.

Offline/online checker over recorded operation histories.  Operations (recorded at the client
boundary as (op, arguments, result digest | exception class)):
    B(f, d)    build design f on frame d              EC(k, d) / EG(k, d)  evaluate common / group of
    SC(mode)   set config.EVAL_UNSEEN_CATEGORIES                            the k-th design on frame d
    BT(f, d)   build on the frame restricted to the columns f uses (+ a NaN): the formula uses EVERY column
    BE(f, d)   build with one caller-owned Environment object shared by all BE builds
    PR(k)      read-only observers (str, repr, as_dataframe, np.asarray, labels) on design k / recent results
    X(op, n)   the same operation with an exception injected at the n-th executed line of formulae
Oracle: the stateless function (formula, training frame, mode, new frame) -> digest, obtained by
executing that single operation in FRESH process-state (all formulae modules purged from
sys.modules and re-imported: fresh registry, config, classes).  After every operation:
  result-equals-fresh-state     the recorded digest equals the model's
  earlier-results-unchanged     digests of all earlier results are unchanged
  designs-unchanged             digests of all existing designs' training matrices are unchanged
  caller-frame-untouched        caller's DataFrames: values, dtypes, index, column order unchanged
  caller-namespace-untouched    extra_namespace and the caller's globals: same keys, same objects
  no-aliasing                   an in-place write by the driver to a returned matrix changes no design
  fault-leaves-no-trace         (X) after an injected fault everything existing is unchanged and the
                                retried operation gives the fresh-state result
"""
import contextlib
import hashlib
import itertools
import json
import os
import random
import subprocess
import sys

import numpy as np
import pandas as pd

from fmon import core, attach

PROP = "C07"
DECIDING = ["result-equals-fresh-state", "earlier-results-unchanged", "designs-unchanged",
            "caller-frame-untouched", "caller-namespace-untouched", "no-aliasing"]

FORMULAS = [
    "y ~ center(x) + scale(z) + s",
    "y ~ poly(x, 3) + bs(z, df=4) + s:x",
    "y ~ x + (x | g) + (1 | g2)",
    "y ~ C(k, levels=lv_k) + T(s, 'b') + np.log(w)",
    "y ~ 0 + s*h + (0 + s | g)",
    "y ~ I(center(x) ** 2):h + standardize(w) + (scale(x) | g:g2)",
    "y ~ hlp.f(x) + fun(z) + s",
    "y ~ center(xz) + scale(xz):h + (1 | g2) + (standardize(xz) | g)",  # xz has mean exactly 0; g2 is evaluated before g
    "y ~ s:h:g2 + x",  # margins missing: helper terms are created from sets of factors (hash order must not show)
    "y ~ z + (1 | gn)",  # gn has missing values and is used by this formula only
    "y ~ 0 + x:s:h:g2 + (0 + s:h | g)",
    "y ~ bs(x, knots=kn_u) + C(k, levels=lv_k):z",  # kn_u: the caller's own, unsorted, array
    "y ~ ni + scale(ni):h + (ni | g2)",  # ni: nullable Int64
    "y ~ center(arr_n) + scale(arr_n):h + x",  # arr_n: the caller's own float array, as long as the frame it builds on
    "y ~ I(np.ravel(arr_n) / 10) + {np.asarray(arr_n) - 1} + s",
    "y ~ x + C(k) + (1 | k)",  # k holds the same numbers as int in some frames and as float in frame 1: labels k[3] / k[3.0]
]
MODES = ["error", "warning", "silent"]
LV_K = [10, 3, 7]


class _Helpers:
    def __init__(self, k):
        self.k = k

    def f(self, v):
        return np.asarray(v, dtype=float) * self.k


HELPERS = [_Helpers(2.0), _Helpers(3.0)]


def fun_a(v):
    return np.asarray(v, dtype=float) + 1.0


def fun_b(v):
    return np.asarray(v, dtype=float) - 1.0


def make_ns(frame_key):
    """The namespace handed to design_matrices: the SAME names are bound to different objects
    depending on the frame the design is built on."""
    j = int(frame_key[-1]) % 2
    n = {"0": 18, "1": 25, "2": 9, "3": 14}[frame_key[-1]]
    return {"lv_k": list(LV_K), "hlp": HELPERS[j], "fun": (fun_a, fun_b)[j], "kn_u": np.array([0.4, -0.6, 0.1]),
            "arr_n": np.linspace(-2.0, 5.0, n) ** 2}


def _values(ns):
    """Contents of the mutable objects a caller passes by name (lists, arrays): they stay the caller's."""
    out = {}
    for k, v in ns.items():
        if isinstance(v, list):
            out[k] = ("list", tuple(v))
        elif isinstance(v, np.ndarray):
            out[k] = ("array", v.dtype.str, v.shape, v.tobytes())
    return out


def used_columns(f, columns):
    from fmon.ref import grammar as G

    return [c for c in columns if c in G.used_names(G.parse(FORMULAS[f]))]


def get_frame(frames, key):
    """'d2' -> pool frame 2;  't4_1' -> frame 1 restricted to the columns formula 4 uses, with a
    missing value in a used numeric column (the formula then uses EVERY column of the frame)."""
    if key in frames:
        return frames[key]
    f, d = (int(x) for x in key[1:].split("_"))
    base = frames["d%d" % d]
    cols = used_columns(f, list(base.columns))
    t = base[cols].copy()
    num = [c for c in ("x", "z", "w") if c in cols]
    if num:
        t.loc[t.index[1], num[0]] = np.nan
    frames[key] = t
    return t


def spec(tier):
    return {
        "level": "exploration",
        "deciding": DECIDING + (["fault-leaves-no-trace"] if tier == "thorough" else []),
        "timeout": 1200 if tier == "quick" else 7200,
        "exhaustive": True,
        "rule": (
            "histories over B/EC/EG/SC: exhaustive up to length 3 (thorough: 4) starting with a build over a pool "
            "of 4 formulas x 3 frames (stateful transforms, poly memo, C(levels=), group terms sharing a factor; "
            "frames with missing levels, unseen levels and unseen groups), plus seeded random histories of length "
            "4..12 over 6 formulas x 4 frames, plus (thorough, and a few in quick) fault injection at random executed "
            "lines of formulae and replay of sampled histories in real fresh subprocesses with other PYTHONHASHSEEDs. "
            "distinct = distinct histories; non-trivial = at least two operations."
        ),
        "assumptions": [
            "fresh process-state is emulated by purging and re-importing all formulae modules (pandas/numpy stay loaded); a sample of histories is also replayed in real fresh subprocesses",
            "digest = bytes, shape and dtype of every matrix + labels + slices + groups + factors_with_new_levels",
        ],
        "classify": lambda v: v.get("key"),
    }


# ---------------------------------------------------------------------------------------------
# pool
# ---------------------------------------------------------------------------------------------
def make_frames():
    out = []
    for j in range(4):
        rng = np.random.default_rng(1000 + j)
        n = [18, 25, 9, 14][j]
        s_lv, g_lv, k_lv = ["a", "b", "c"], ["g1", "g2", "g3"], [3, 7, 10]
        if j == 2:  # levels missing
            s_lv, g_lv = ["b", "c"], ["g1", "g3"]
        if j == 3:  # unseen level and unseen group (when used as new data)
            s_lv, g_lv = ["a", "b", "c", "zz"], ["g1", "g2", "g3", "g9"]

        def col(lv):
            idx = list(range(len(lv))) * (n // len(lv) + 1)
            idx = np.array(idx[:n])
            rng.shuffle(idx)
            return [lv[i] for i in idx]

        df = pd.DataFrame({
            "y": rng.normal(size=n), "x": rng.normal(size=n), "z": rng.normal(2.0, 1.5, size=n),
            "w": rng.uniform(0.5, 2.0, size=n),
            "s": pd.Series(col(s_lv), dtype="str"), "h": pd.Series(col(["u", "v"]), dtype="str"),
            "g": pd.Series(col(g_lv), dtype="str"), "g2": pd.Series(col(["p", "q"]), dtype="str"),
            "k": np.array(col(k_lv), dtype=int),
            "unused": np.full(n, np.nan),
        })
        half = np.arange(1, n // 2 + 1, dtype=float)
        xz = np.concatenate([-half, half] + ([np.zeros(1)] if n % 2 else []))
        rng.shuffle(xz)
        df["xz"] = xz if j != 2 else xz + 1.0  # exactly zero mean, except in frame 2
        df["gn"] = df["g"].where(~df.index.isin([0, 3, n - 1]))
        # nullable dtypes, one used by a formula and one never used (with a missing value): dtypes and pd.NA stay the caller's
        df["ni"] = pd.array((np.arange(n) * 3) % 7, dtype="Int64")
        df["nu"] = pd.array([None if r == 2 else float(r) for r in range(n)], dtype="Float64")
        df[2019] = np.arange(n)  # a column whose label is not a string (never used by a formula)
        if j == 1:
            df["k"] = df["k"].astype(float)
        if j == 1:
            df.index = pd.Index([f"r{i}" for i in range(n)][::-1])
        out.append(df)
    return out


def frame_digest(df):
    h = hashlib.blake2b(digest_size=12)
    h.update(repr(list(df.columns)).encode())
    h.update(repr([str(t) for t in df.dtypes]).encode())
    h.update(repr(list(df.index)).encode())
    for c in df.columns:
        v = df[c].to_numpy()
        h.update(v.tobytes() if v.dtype != object else repr(v.tolist()).encode())
    return h.hexdigest()


def arr_digest(h, a):
    a = np.asarray(a)
    h.update(str(a.shape).encode()); h.update(str(a.dtype).encode())
    h.update(np.ascontiguousarray(a).tobytes())


def matrix_digest(mobj):
    if mobj is None:
        return "none"
    h = hashlib.blake2b(digest_size=12)
    arr_digest(h, mobj.design_matrix)
    if hasattr(mobj, "slices"):
        h.update(repr(sorted((k, v.start, v.stop) for k, v in mobj.slices.items())).encode())
        h.update(repr(list(mobj.terms)).encode())
        for name, t in mobj.terms.items():
            try:
                h.update(repr(t.labels).encode())
            except Exception as e:
                h.update(("labels-raise:" + type(e).__name__).encode())
            if hasattr(t, "groups"):
                h.update(repr(t.groups).encode())
            # what downstream code reads from the terms of a design: kind and the (training) data block
            h.update(repr(getattr(t, "kind", None)).encode())
            d = getattr(t, "data", None)
            if isinstance(d, np.ndarray):
                arr_digest(h, d)
            else:
                h.update(("data:" + type(d).__name__).encode())
    if hasattr(mobj, "factors_with_new_levels"):
        h.update(repr(mobj.factors_with_new_levels).encode())
    if hasattr(mobj, "levels"):
        h.update(repr(mobj.levels).encode()); h.update(repr(mobj.kind).encode())
    return h.hexdigest()


def design_digest(dm):
    return "|".join(matrix_digest(p) for p in (dm.response, dm.common, dm.group))


# ---------------------------------------------------------------------------------------------
# the model: one operation in fresh process-state
# ---------------------------------------------------------------------------------------------
@contextlib.contextmanager
def fresh_formulae():
    saved = {k: v for k, v in sys.modules.items() if k == "formulae" or k.startswith("formulae.")}
    for k in saved:
        del sys.modules[k]
    try:
        import formulae as F

        yield F
    finally:
        for k in [k for k in sys.modules if k == "formulae" or k.startswith("formulae.")]:
            del sys.modules[k]
        sys.modules.update(saved)


MODEL_CACHE = {}


def model_result(kind, f, d_train, mode, d_new, frames):
    """kind in B / EC / EG; d_train / d_new are frame keys.  Returns digest or ('raise', class)."""
    key = (kind, f, d_train, mode if kind != "B" else None, d_new)
    if key in MODEL_CACHE:
        return MODEL_CACHE[key]
    core.mon().shadow += 1
    with fresh_formulae() as F:
        try:
            F.config["EVAL_UNSEEN_CATEGORIES"] = mode
            dm = F.design_matrices(FORMULAS[f], get_frame(frames, d_train).copy(), extra_namespace=make_ns(d_train))
            if kind == "B":
                res = design_digest(dm)
            else:
                part = dm.common if kind == "EC" else dm.group
                if part is None:
                    res = "no-such-part"
                else:
                    res = matrix_digest(part.evaluate_new_data(get_frame(frames, d_new).copy()))
        except Exception as e:
            res = ("raise", type(e).__name__)
    MODEL_CACHE[key] = res
    return res


# ---------------------------------------------------------------------------------------------
# fault injection: source-free failpoints through sys.monitoring
# ---------------------------------------------------------------------------------------------
class InjectedFault(Exception):
    pass


class Failpoint:
    TOOL = 4

    def __init__(self, nth):
        self.nth = nth
        self.count = 0
        self.fired = False

    def __enter__(self):
        mon = sys.monitoring
        mon.use_tool_id(self.TOOL, "fmon-failpoint")
        mon.register_callback(self.TOOL, mon.events.LINE, self._line)
        mon.set_events(self.TOOL, mon.events.LINE)
        return self

    def _line(self, code, line):
        fn = code.co_filename
        if "/formulae/" not in fn or "/verif/" in fn:
            return sys.monitoring.DISABLE
        self.count += 1
        if self.count == self.nth and not self.fired:
            self.fired = True
            raise InjectedFault(f"injected at {os.path.basename(fn)}:{line}")
        return None

    def __exit__(self, *a):
        mon = sys.monitoring
        mon.set_events(self.TOOL, 0)
        mon.register_callback(self.TOOL, mon.events.LINE, None)
        mon.free_tool_id(self.TOOL)
        sys.monitoring.restart_events()
        return False


# ---------------------------------------------------------------------------------------------
# history execution + checking
# ---------------------------------------------------------------------------------------------
class Runner:
    def __init__(self, frames, m):
        import formulae

        self.F = formulae
        self.m = m
        self.frames = {"d%d" % j: f.copy() for j, f in enumerate(frames)}
        self.pristine = {"d%d" % j: f.copy() for j, f in enumerate(frames)}  # for the model only
        self.frame_ids = {}
        self.frame_dig = {}
        self.nss = {}
        self.nsv = {}
        self.shared_env = None
        self.designs = []  # (f, d, dm | None, digest)
        self.results = []  # (obj, digest)
        self.mode = "error"
        formulae.config["EVAL_UNSEEN_CATEGORIES"] = "error"
        self.glob_keys = None

    def _exec(self, op):
        kind = op[0]
        if kind in ("B", "BT", "BE"):
            key = self.key(op)
            ns = self.namespace(key)
            if kind == "BE":
                # the caller owns ONE Environment object and hands it to every such build
                if self.shared_env is None:
                    self.shared_env = self.F.environment.Environment([{}, {"np": np}])
                    self.shared_env_len = len(self.shared_env._namespaces)
                dm = self.F.design_matrices(FORMULAS[op[1]], self.frame(key), env=self.shared_env, extra_namespace=ns)
                m = self.m
                m.ev("caller-namespace-untouched")
                if len(self.shared_env._namespaces) != self.shared_env_len:
                    m.violation("caller-namespace-untouched", "the caller's Environment object grew", key="environment-changed")
                    self.shared_env_len = len(self.shared_env._namespaces)
                return dm
            dm = self.F.design_matrices(FORMULAS[op[1]], self.frame(key), extra_namespace=ns)
            return dm
        if kind in ("EC", "EG"):
            _, k, d = op
            f, dtrain, dm, _dig = self.designs[k]
            part = dm.common if kind == "EC" else dm.group
            if part is None:
                return "no-such-part"
            return part.evaluate_new_data(self.frame("d%d" % d))
        if kind == "SC":
            self.F.config["EVAL_UNSEEN_CATEGORIES"] = op[1]
            self.mode = op[1]
            return None
        if kind == "PR":
            # read-only observers: they must not change anything (checked by the invariants afterwards)
            _f, _d, dm, _dig = self.designs[op[1]]
            objs = [dm, dm.response, dm.common, dm.group] + [o for o, _ in self.results[-3:]]
            for o in objs:
                if o is None:
                    continue
                try:
                    str(o); repr(o)
                    if hasattr(o, "as_dataframe"):
                        o.as_dataframe()
                    if hasattr(o, "design_matrix"):
                        np.asarray(o)
                    for t in getattr(o, "terms", {}).values() if hasattr(o, "terms") and isinstance(o.terms, dict) else []:
                        t.labels
                except Exception as e:
                    self.m.note("observer-raised:" + type(e).__name__)
            return None
        raise ValueError(kind)

    def key(self, op):
        return ("d%d" % op[2]) if op[0] in ("B", "BE") else ("t%d_%d" % (op[1], op[2]))

    def frame(self, key):
        fr = get_frame(self.frames, key)
        if key not in self.frame_ids:
            self.frame_ids[key] = id(fr)
            self.frame_dig[key] = frame_digest(fr)
        return fr

    def namespace(self, key):
        if key not in self.nss:
            ns = make_ns(key)
            self.nss[key] = (ns, {k: id(v) for k, v in ns.items()}, repr(sorted(ns)))
            self.nsv[key] = _values(ns)
        return self.nss[key][0]

    def expected(self, op):
        kind = op[0]
        if kind in ("B", "BT", "BE"):
            return model_result("B", op[1], self.key(op), "error", None, self.pristine)
        if kind in ("EC", "EG"):
            f, dtrain, dm, _ = self.designs[op[1]]
            return model_result(kind, f, dtrain, self.mode, "d%d" % op[2], self.pristine)
        return None

    def applicable(self, op):
        if op[0] in ("EC", "EG", "PR"):
            return op[1] < len(self.designs) and self.designs[op[1]][2] is not None
        return True

    def step(self, op, history, fault=None):
        m = self.m
        case = {"history": history, "at": list(op), "fault": fault}
        gl = globals()
        gkeys = {k: id(v) for k, v in gl.items()}
        want = self.expected(op)
        if fault is not None:
            try:
                with Failpoint(fault) as fp:
                    self._exec(op)
                fired = fp.fired
            except InjectedFault:
                fired = True
            except Exception:
                fired = True  # the code under test converted / wrapped the injected exception
            if op[0] == "SC":
                self.mode = self.F.config["EVAL_UNSEEN_CATEGORIES"]
            m.ev("fault-leaves-no-trace", applicable=fired)
            m.cls("fault-fired:%s" % fired)
            self.check_invariants(case, prefix="fault:")
            # now the retried operation must behave as in fresh state (falls through)
        try:
            res = self._exec(op)
            if op[0] in ("B", "BT", "BE"):
                got = design_digest(res)
            elif op[0] in ("SC", "PR"):
                got = None
            else:
                got = res if isinstance(res, str) else matrix_digest(res)
        except Exception as e:
            res, got = None, ("raise", type(e).__name__)
        if op[0] in ("B", "BT", "BE"):
            self.designs.append((op[1], self.key(op), res, got if res is not None else None))
        elif op[0] in ("EC", "EG") and res is not None and not isinstance(res, str):
            self.results.append((res, got))
        if op[0] not in ("SC", "PR"):
            m.ev("result-equals-fresh-state")
            if _norm(got) != _norm(want):
                m.violation("result-equals-fresh-state",
                            f"{op} after {history[:-1]} gives {_short(got)}, in fresh state {_short(want)}",
                            case=case, key="result-differs-from-fresh:" + op[0] + (":after-fault" if fault else ""))
        self.check_invariants(case)
        # caller namespace
        m.ev("caller-namespace-untouched")
        now = {k: id(v) for k, v in gl.items()}
        ns_changed = any({k: id(v) for k, v in ns.items()} != ids or repr(sorted(ns)) != rp
                         for ns, ids, rp in self.nss.values())
        for key, (ns, _i, _r) in self.nss.items():
            if _values(ns) != self.nsv[key]:
                changed = [k for k, v in _values(ns).items() if self.nsv[key].get(k) != v]
                m.violation("caller-namespace-untouched", f"{op} changed the contents of the caller's {changed} in place", case=case,
                            key="namespace-object-mutated")
                self.nsv[key] = _values(ns)
        if now != gkeys or ns_changed:
            m.violation("caller-namespace-untouched", f"namespace changed by {op}", case=case, key="namespace-changed")
            self.nss = {k: (ns, {a: id(b) for a, b in ns.items()}, repr(sorted(ns))) for k, (ns, _i, _r) in self.nss.items()}
        # aliasing: scribble into the fresh result, nothing else may change
        if op[0] in ("EC", "EG") and res is not None and not isinstance(res, str):
            m.ev("no-aliasing")
            try:
                res.design_matrix[...] = -7.25
                self.results[-1] = (res, matrix_digest(res))
            except (ValueError, TypeError):
                m.note("result-not-writable")
            self.check_invariants(case, prefix="alias:")

    def check_invariants(self, case, prefix=""):
        m = self.m
        m.ev("designs-unchanged")
        for j, (f, d, dm, dig) in enumerate(self.designs):
            if dm is not None and design_digest(dm) != dig:
                m.violation("designs-unchanged" if not prefix.startswith("alias") else "no-aliasing",
                            f"design #{j} ({FORMULAS[f]!r} on frame {d}) changed", case=case,
                            key=prefix + "design-changed")
                self.designs[j] = (f, d, dm, design_digest(dm))
        m.ev("earlier-results-unchanged")
        for j, (obj, dig) in enumerate(self.results):
            if matrix_digest(obj) != dig:
                m.violation("earlier-results-unchanged" if not prefix.startswith("alias") else "no-aliasing",
                            f"earlier result #{j} changed", case=case, key=prefix + "earlier-result-changed")
                self.results[j] = (obj, matrix_digest(obj))
        m.ev("caller-frame-untouched")
        for j, fr in self.frames.items():
            if j in self.frame_ids and (id(fr) != self.frame_ids[j] or frame_digest(fr) != self.frame_dig[j]):
                m.violation("caller-frame-untouched", f"caller's frame {j} changed (rows {len(fr)})", case=case,
                            key=prefix + "frame-changed")
                self.frame_dig[j] = frame_digest(fr)


def _norm(x):
    return list(x) if isinstance(x, tuple) else x


def _short(x):
    return x if not isinstance(x, str) else x[:20] + ".."


def run_history(history, frames, m, faults=None):
    r = Runner(frames, m)
    done = []
    for j, op in enumerate(history):
        op = tuple(op)
        if not r.applicable(op):
            m.note("op-skipped-not-applicable")
            continue
        done.append(list(op))
        r.step(op, done, fault=(faults or {}).get(j))
    for op in done:
        m.cls("op:" + op[0])
    m.cls("length:%d" % len(done))


# ---------------------------------------------------------------------------------------------
# workloads
# ---------------------------------------------------------------------------------------------
def ops_after(ndesigns, nf, nd):
    ops = [("B", f, d) for f in range(nf) for d in range(nd)]
    ops += [("BT", f, 0) for f in range(nf)]
    ops += [("BE", nf - 1, d) for d in range(nd)]
    for k in range(ndesigns):
        ops += [("EC", k, d) for d in range(nd)] + [("EG", k, d) for d in range(nd)]
    ops += [("SC", md) for md in MODES]
    ops += [("PR", k) for k in range(ndesigns)]
    return ops


def enum_histories(maxlen, nf, nd):
    def rec(prefix, nb):
        yield prefix
        if len(prefix) == maxlen:
            return
        for op in ops_after(nb, nf, nd):
            yield from rec(prefix + [op], nb + (op[0] in ("B", "BT", "BE")))

    for f in range(nf):
        for d in range(nd):
            yield from rec([("B", f, d)], 1)


QUICK_F = [0, 2, 6, 7]  # indices into FORMULAS used by the exhaustive part
QUICK_D = [0, 2, 3]


def remap(h):
    out = []
    for op in h:
        if op[0] in ("B", "BT", "BE"):
            out.append([op[0], QUICK_F[op[1]], QUICK_D[op[2]]])
        elif op[0] in ("EC", "EG"):
            out.append([op[0], op[1], QUICK_D[op[2]]])
        else:
            out.append(list(op))
    return out


def random_history(rng, nf, nd):
    L = rng.randint(4, 12)
    h = [["B", rng.randrange(nf), rng.randrange(nd)]]
    nb = 1
    for _ in range(L - 1):
        r = rng.random()
        if r < 0.25:
            h.append([rng.choice(["B", "B", "BT", "BE"]), rng.randrange(nf), rng.randrange(nd)]); nb += 1
        elif r < 0.6:
            h.append(["EC", rng.randrange(nb), rng.randrange(nd)])
        elif r < 0.85:
            h.append(["EG", rng.randrange(nb), rng.randrange(nd)])
        elif r < 0.93:
            h.append(["SC", rng.choice(MODES)])
        else:
            h.append(["PR", rng.randrange(nb)])
    return h


def run_shard(i, n, tier, seed, m):
    frames = make_frames()
    maxlen = 3 if tier == "quick" else 4
    k = -1
    for h in enum_histories(maxlen, len(QUICK_F), len(QUICK_D)):
        k += 1
        # thorough: length-4 histories are thinned deterministically to one in four
        if k % n != i or (len(h) == 4 and (k // n) % 4 != 0):
            continue
        hist = remap(h)
        m.cases += 1
        if len(hist) >= 2:
            m.distinct_count_only += 1
        if len(m.samples) < 3 and (k // n) % 400 == 7:
            m.samples.append({"history": hist})
        m.current_case = {"history": hist}
        run_history(hist, frames, m)
    rng = random.Random(seed * 1000003 + i * 19 + 7)
    nrand = (1600 if tier == "quick" else 20000) // n
    for _ in range(nrand):
        hist = random_history(rng, len(FORMULAS), len(frames))
        m.case({"history": hist}, canon=hist, nontrivial=True)
        run_history(hist, frames, m)
    # fault injection
    nfault = (160 if tier == "quick" else 6000) // n
    for _ in range(nfault):
        hist = random_history(rng, len(FORMULAS), len(frames))[: rng.randint(2, 6)]
        j = rng.randrange(len(hist))
        nth = rng.choice([1, 2, 3, 5, 8, 13, 21, 34, 55, 89, 144, 233, 377, 610, 987, 1597]) + rng.randrange(5)
        m.case({"history": hist, "fault": {str(j): nth}}, canon=[hist, j, nth], nontrivial=True)
        run_history(hist, frames, m, faults={j: nth})
    # real fresh subprocesses with other hash seeds: determinism across processes
    nsub = (2 if tier == "quick" else 6) if i < 8 else 0
    # every formula once on its own (shard j % n), then random histories
    subs = [[["B", j, 0], ["EC", 0, 3], ["EG", 0, 3]] for j in range(len(FORMULAS)) if j % n == i]
    subs += [random_history(rng, len(FORMULAS), len(frames)) for _ in range(nsub)]
    for hist in subs:
        digs = []
        for hs in ("1", "4242", str(rng.randrange(10 ** 6))):
            env = core.child_env({"PYTHONHASHSEED": hs})
            p = subprocess.run([sys.executable, "-c", SUBPROC, json.dumps(hist)], env=env, capture_output=True,
                               text=True, timeout=300, cwd=core.VERIF)
            digs.append(p.stdout.strip().splitlines()[-1] if p.stdout.strip() else "no-output:" + p.stderr[-200:])
        m.case({"history": hist, "subprocess": True}, canon=[hist, "sub"], nontrivial=True)
        m.ev("deterministic-across-processes")
        # and the same history in this process
        mine = digest_history(hist, frames)
        if not (digs[0] == digs[1] == digs[2] == mine):
            m.violation("deterministic-across-processes", f"history digests differ: {digs} vs in-process {mine}",
                        case={"history": hist}, key="nondeterministic")


def digest_history(hist, frames):
    import formulae

    frames = {"d%d" % j: f.copy() for j, f in enumerate(frames)}
    formulae.config["EVAL_UNSEEN_CATEGORIES"] = "error"
    out, designs = [], []
    for op in hist:
        try:
            if op[0] in ("B", "BT", "BE"):
                key = ("d%d" % op[2]) if op[0] in ("B", "BE") else ("t%d_%d" % (op[1], op[2]))
                dm = formulae.design_matrices(FORMULAS[op[1]], get_frame(frames, key), extra_namespace=make_ns(key))
                designs.append(dm)
                out.append(design_digest(dm))
            elif op[0] == "SC":
                formulae.config["EVAL_UNSEEN_CATEGORIES"] = op[1]
                out.append("sc")
            elif op[0] == "PR":
                if op[1] < len(designs) and designs[op[1]] is not None:
                    str(designs[op[1]]); str(designs[op[1]].common); str(designs[op[1]].group)
                out.append("pr")
            else:
                if op[1] >= len(designs) or designs[op[1]] is None:
                    out.append("skip")
                    continue
                dm = designs[op[1]]
                part = dm.common if op[0] == "EC" else dm.group
                out.append("none" if part is None else matrix_digest(part.evaluate_new_data(frames["d%d" % op[2]])))
        except Exception as e:
            if op[0] in ("B", "BT", "BE"):
                designs.append(None)
            out.append("raise:" + type(e).__name__)
    formulae.config["EVAL_UNSEEN_CATEGORIES"] = "error"
    return hashlib.blake2b(repr(out).encode(), digest_size=10).hexdigest()


SUBPROC = """
import sys, json, logging, warnings
sys.path.insert(0, %r)
logging.disable(logging.CRITICAL); warnings.filterwarnings('ignore')
import numpy as np
from props import C07
print(C07.digest_history(json.loads(sys.argv[1]), C07.make_frames()))
""" % core.VERIF


def replay(rec, m):
    case = rec["case"]
    fault = case.get("fault")
    if isinstance(fault, dict):
        faults = {int(k): v for k, v in fault.items()}
    elif isinstance(fault, int):
        faults = {len(case["history"]) - 1: fault}
    else:
        faults = None
    run_history(case["history"], make_frames(), m, faults=faults)
