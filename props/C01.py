"""C01 - formula grammar: precedence, associativity, nothing silently ignored.

Deciding monitors (boundary): post-conditions on model_description / Parser.parse
  nonsentence-rejected   reference says "not a sentence"  =>  model_description raises
  ast-equals-reference   real AST (Grouping erased) == reference AST
  ws-invariance / paren-invariance / fp-invariance   metamorphic shadows of the real code
  no-token-ignored       in an accepted formula without a formula-level `-` / `0`, renaming one variable or level
                         to an unused name changes the model (every one in turn for the DIRECTED formulas)
                         and deleting the formula's only intercept removal (`0` / `-1` under `+`) changes the model
                         (known finding D34: a removal inside a parenthesised operand, keyed by where it sits)
White-box (secondary): scanner span conservation, parser cursor/token conservation.
"""
import collections
import random

from fmon import core, attach
from fmon.ref import grammar as G
from fmon.ref import algebra as A
from workloads import sentences as S

PROP = "C01"
DECIDING = ["nonsentence-rejected", "ast-equals-reference", "ws-invariance", "paren-invariance",
            "fp-invariance", "no-token-ignored"]


def spec(tier):
    L = 4 if tier == "quick" else 5
    return {
        "level": "exploration",
        "deciding": DECIDING,
        "timeout": 900 if tier == "quick" else 5400,
        "exhaustive": True,
        "rule": (
            f"exhaustive: every string of 1..{L} tokens over the 25-token alphabet {' '.join(S.ALPHABET)} "
            "joined by single spaces (distinct by construction; all counted as non-trivial only when "
            "they have >= 2 tokens); plus seeded grammar sentences of depth <= 8 with random "
            "whitespace / redundant parentheses and their character-level mutants (distinct after "
            "whitespace normalisation; non-trivial = at least one operator or call)."
        ),
        "assumptions": [
            "reference grammar fmon/ref/grammar.py encodes the documented precedence table",
            "relative precedence of unary sign and ** inside call arguments is not judged (C12 owns it)",
            "a string closed by the other quote character is treated as one string token (observed, not judged)",
        ],
        "classify": classify,
    }


def classify(v):
    return v.get("key")


# ---------------------------------------------------------------------------------------------
# real side
# ---------------------------------------------------------------------------------------------
def real_ast_to_tuple(e):
    from formulae import expr as E

    if isinstance(e, E.Grouping):
        return real_ast_to_tuple(e.expression)
    if isinstance(e, E.Binary):
        return ("bin", e.operator.lexeme, real_ast_to_tuple(e.left), real_ast_to_tuple(e.right))
    if isinstance(e, E.Unary):
        return ("un", e.operator.lexeme, real_ast_to_tuple(e.right))
    if isinstance(e, E.Call):
        return ("call", real_ast_to_tuple(e.callee), [real_ast_to_tuple(a) for a in e.args])
    if isinstance(e, E.Assign):
        return ("kw", e.name.name.lexeme, real_ast_to_tuple(e.value))
    if isinstance(e, E.Variable):
        lv = e.level
        if lv is not None:
            lv = lv.value if isinstance(lv, E.Literal) else ("?", type(lv).__name__)
        return ("var", e.name.lexeme, lv)
    if isinstance(e, E.QuotedName):
        return ("bq", e.expression.lexeme)
    if isinstance(e, E.Literal):
        return ("lit", e.value, e.lexeme)
    raise TypeError(type(e).__name__)


def ast_eq(a, b):
    """Structural equality that distinguishes 1 / 1.0 / True."""
    if type(a) is not type(b):
        return False
    if isinstance(a, (tuple, list)):
        return len(a) == len(b) and all(ast_eq(x, y) for x, y in zip(a, b))
    return a == b


def model_sig(m):
    resp = None
    if m.response is not None:
        resp = m.response.term.name
        ref = getattr(m.response.term.components[0], "reference", None)
        if ref is not None:  # y[level] ~ ...: the level is part of what the formula says
            resp = f"{resp}[{ref}]"
    return [resp, [str(t.name) for t in m.common_terms], [str(t.name) for t in m.group_terms]]


def real_model(text, add_intercept=True):
    """('ok', signature) | ('raise', exception class name).  Runs the real pipeline unmonitored
    (these are the monitor's own shadow executions)."""
    from formulae.scanner import Scanner
    from formulae.parser import Parser
    from formulae.resolver import Resolver
    from formulae.terms.terms import Model

    try:
        d = Resolver(Parser(Scanner(text).scan(add_intercept)).parse()).resolve()
        if not isinstance(d, Model):
            d = Model(d)
        return ("ok", model_sig(d))
    except RecursionError:
        return ("raise", "RecursionError")
    except Exception as e:
        return ("raise", type(e).__name__)


def same_outcome(a, b):
    if a[0] != b[0]:
        return False
    return a[0] == "raise" or a[1] == b[1]


# ---------------------------------------------------------------------------------------------
# white-box conservation monitors
# ---------------------------------------------------------------------------------------------
_WB = {"installed": False}


def install_whitebox(m):
    if _WB["installed"]:
        return
    _WB["installed"] = True
    try:
        from formulae import scanner as SC, parser as PA
    except Exception:  # pragma: no cover
        m.note("attach-missing:scanner/parser")
        return
    orig_add = SC.Scanner.add_token
    orig_scan = SC.Scanner.scan
    orig_parse = PA.Parser.parse
    orig_adv = PA.Parser.advance

    def add_token(self, kind, literal=None):
        spans = self.__dict__.setdefault("_fmon_spans", [])
        spans.append((self.start, self.current))
        return orig_add(self, kind, literal)

    def scan(self, add_intercept=True):
        toks = orig_scan(self, add_intercept)
        mm = core.mon()
        mm.attach["Scanner.scan"] += 1
        spans = self.__dict__.get("_fmon_spans", [])
        mm.ev("wb-scanner-spans")
        prev = 0
        ok = True
        for a, b in spans:
            if a < prev or b <= a or self.code[prev:a].strip(" \t\r\n") != "":
                ok = False
            prev = b
        if self.code[prev:].strip(" \t\r\n") != "":
            ok = False
        if not ok:
            mm.violation("wb-scanner-spans", f"token spans {spans} do not tile {self.code!r}",
                         case={"text": self.code}, key="scanner-spans")
        return toks

    def advance(self):
        before = self.current
        r = orig_adv(self)
        if self.current < before:
            core.mon().violation("wb-parser-cursor", "cursor moved backwards", key="parser-cursor")
        return r

    def parse(self):
        r = orig_parse(self)
        mm = core.mon()
        mm.attach["Parser.parse"] += 1
        mm.ev("wb-parser-eof")
        try:
            at_eof = self.tokens[self.current].kind == "EOF"
        except Exception:
            mm.note("attach-missing:Parser.tokens/current")
            return r
        if not at_eof:
            mm.violation(
                "wb-parser-eof",
                f"parse() returned with the cursor on token {self.current} of {len(self.tokens) - 1}: "
                f"{[t.lexeme for t in self.tokens[self.current:-1]][:6]} never consumed",
                case={"tokens": [t.lexeme for t in self.tokens]}, key="unconsumed-tokens")
        else:
            mm.ev("wb-parser-conservation")
            try:
                want = token_content(self.tokens)
                got = ast_content(r)
                if want != got:
                    mm.violation("wb-parser-conservation",
                                 f"tokens {dict(want - got)} consumed but not in the AST / {dict(got - want)} invented",
                                 case={"tokens": [t.lexeme for t in self.tokens]}, key="token-dropped")
            except Exception as e:
                mm.note("attach-missing:conservation:" + type(e).__name__)
        return r

    SC.Scanner.add_token = add_token
    SC.Scanner.scan = scan
    PA.Parser.advance = advance
    PA.Parser.parse = parse


STRUCT = {"LEFT_PAREN", "RIGHT_PAREN", "LEFT_BRACKET", "RIGHT_BRACKET", "RIGHT_BRACE", "COMMA", "EOF"}


def token_content(tokens):
    c = collections.Counter()
    for t in tokens:
        if t.kind in STRUCT:
            continue
        if t.kind == "LEFT_BRACE":
            c[("name", "I")] += 1
        elif t.kind == "NUMBER":
            c[("num", type(t.literal).__name__, t.literal)] += 1
        elif t.kind == "PYTHON_LITERAL":
            c[("py", repr(t.literal))] += 1
        elif t.kind == "STRING":
            c[("str", t.lexeme)] += 1
        elif t.kind in ("IDENTIFIER", "BQNAME"):
            c[("name", t.lexeme)] += 1
        else:
            c[("op", t.lexeme)] += 1
    return c


def ast_content(e, c=None):
    from formulae import expr as E

    c = collections.Counter() if c is None else c
    if isinstance(e, E.Grouping):
        ast_content(e.expression, c)
    elif isinstance(e, E.Binary):
        c[("op", e.operator.lexeme)] += 1
        ast_content(e.left, c); ast_content(e.right, c)
    elif isinstance(e, E.Unary):
        c[("op", e.operator.lexeme)] += 1
        ast_content(e.right, c)
    elif isinstance(e, E.Call):
        ast_content(e.callee, c)
        for a in e.args:
            ast_content(a, c)
    elif isinstance(e, E.Assign):
        c[("op", "=")] += 1
        ast_content(e.name, c); ast_content(e.value, c)
    elif isinstance(e, E.Variable):
        c[("name", e.name.lexeme)] += 1
        if e.level is not None:
            if isinstance(e.level, E.Literal) and e.level.lexeme is not None:
                c[("str", e.level.lexeme)] += 1
            elif isinstance(e.level, E.Literal):
                c[("name", e.level.value)] += 1
            else:
                ast_content(e.level, c)
    elif isinstance(e, E.QuotedName):
        c[("name", e.expression.lexeme)] += 1
    elif isinstance(e, E.Literal):
        if e.lexeme is not None:
            c[("str", e.lexeme)] += 1
        elif isinstance(e.value, bool) or e.value is None:
            c[("py", repr(e.value))] += 1
        else:
            c[("num", type(e.value).__name__, e.value)] += 1
    else:
        raise TypeError(type(e).__name__)
    return c


# ---------------------------------------------------------------------------------------------
# the contract evaluated on one text
# ---------------------------------------------------------------------------------------------
def judge(text, m, rng, shadows=True, origin="enum"):
    import formulae
    from formulae.scanner import Scanner
    from formulae.parser import Parser

    case = {"text": text, "origin": origin}
    call_mode = "formula"
    # reference
    try:
        toks = G.tokenize(text)
        ref_ast = G.parse_tokens(toks)
        ref_ok = True
    except G.NotSentence as e:
        ref_ok, ref_why = False, str(e)
    except RecursionError:
        m.note("reference-recursion-limit")
        return
    # history: the library has just seen the same characters without the inter-token whitespace (a
    # different string: 'a b' -> 'ab', '* *' -> '**') and without parentheses; neither may influence
    # how THIS string is read
    for primer in ("".join(text.split()), text.replace("(", " ").replace(")", " ")):
        if primer != text and primer.strip():
            try:
                with core.shadow():
                    attach.ORIG["model_description"](primer)
            except Exception:
                pass
            except RecursionError:
                pass
    if ref_ok and A.expansion_bound(ref_ast) > 400:
        # the term algebra is exponential in the nesting of * and **: the grammar clauses are judged
        # at parser level only for such sentences
        m.note("too-large-for-model-level")
        try:
            with core.shadow():
                real_tree = Parser(Scanner(text).scan()).parse()
            m.ev("ast-equals-reference")
            rt = real_ast_to_tuple(real_tree)
            if not ast_eq(rt, ref_ast):
                try:
                    alt = ast_eq(rt, G.parse_tokens(toks, call_mode="python"))
                except G.NotSentence:
                    alt = False
                if not alt:
                    m.violation("ast-equals-reference", f"real {G.fp(rt) if _printable(rt) else rt} != reference {G.fp(ref_ast)}",
                                case=case, key="ast-differs")
        except Exception:
            m.cls("real:rejects-sentence")
        return
    # real, through the public API (monitored attach point)
    try:
        model = formulae.model_description(text)
        real = ("ok", None)
    except RecursionError:
        real = ("raise", "RecursionError")
    except Exception as e:
        real = ("raise", type(e).__name__)
    if real[0] == "ok":
        try:
            real = ("ok", model_sig(model))
        except Exception as e:
            m.note("signature-unavailable:" + type(e).__name__)
            real = ("ok", None)
    m.ev("nonsentence-rejected", applicable=not ref_ok)
    if not ref_ok:
        m.cls("ref:not-a-sentence")
        if real[0] == "ok":
            m.violation("nonsentence-rejected",
                        f"accepted although not a sentence ({ref_why}); model={real[1]}",
                        case=case, key="accepts-nonsentence:" + ref_why.split(" from ")[0].split(" at ")[0][:40])
        return
    m.cls("ref:sentence")
    # parser level AST comparison
    try:
        with core.shadow():
            real_tree = Parser(Scanner(text).scan()).parse()
        parsed = True
    except RecursionError:
        parsed = False
    except Exception:
        parsed = False
    m.ev("ast-equals-reference", applicable=parsed)
    if parsed:
        try:
            rt = real_ast_to_tuple(real_tree)
        except TypeError as e:
            m.note("attach-missing:expr-classes:" + str(e))
            rt = None
        if rt is not None and not ast_eq(rt, ref_ast):
            ok_alt = False
            try:
                alt_ast = G.parse_tokens(toks, call_mode="python")
                ok_alt = ast_eq(rt, alt_ast)
            except G.NotSentence:
                pass
            if ok_alt:
                # inside call arguments the library follows Python (sign / **): C12 owns that choice;
                # the metamorphic variants below are derived from the AST the library agrees with
                m.note("python-precedence-inside-call")
                ref_ast, call_mode = alt_ast, "python"
            else:
                m.violation("ast-equals-reference",
                            f"real {G.fp(rt) if _printable(rt) else rt} != reference {G.fp(ref_ast)}",
                            case=case, key="ast-differs")
    if real[0] != "ok":
        m.cls("real:rejects-sentence")
        return
    m.cls("real:accepts")
    if not shadows or real[1] is None:
        return
    # metamorphic shadows through the real pipeline
    for name, variant, add in variants(text, toks, ref_ast, rng, call_mode):
        m.ev(name)
        with core.shadow():
            out = real_model(variant, add)
        if out == ("raise", "RecursionError"):
            # the variant nests deeper than the interpreter allows: undecided, not a violation
            m.note("variant-recursion-limit")
            continue
        m.ev(name + ":decided")
        if not same_outcome(real, out):
            m.violation(name, f"{text!r} -> {real}  but  {variant!r} -> {out}",
                        case={**case, "variant": variant, "add_intercept": add}, key=name)
    # no accepted formula contains a token that was ignored: renaming one variable occurrence to a name
    # that occurs nowhere else must change the model (formulas without a formula-level `-`)
    fresh = "zq9"
    while fresh in text:
        fresh += "q"
    try:
        renamed = rename_one(ref_ast, rng, fresh, every=(origin == "directed"))
        variants_ = [G.fp(r) for r in renamed] if renamed else []
    except Exception:
        variants_ = []
    m.ev("no-token-ignored", applicable=bool(variants_))
    for variant in variants_:
        with core.shadow():
            out = real_model(variant, False)
        if out[0] == "ok" and out[1] == real[1]:
            m.violation("no-token-ignored",
                        f"{text!r} and {variant!r} (one variable or level renamed to {fresh!r}) both give {real[1]}",
                        case={**case, "variant": variant, "add_intercept": False}, key="token-ignored")
    # ... and its only `0` / `-1` removes an intercept: deleting that operand must change the model
    try:
        dropped = drop_removal(ref_ast)
    except Exception:
        dropped = None
    if dropped is not None:
        dropped, where = dropped
        m.ev("no-token-ignored")
        variant = G.fp(dropped)
        with core.shadow():
            out = real_model(variant, False)
        m.note("removal-literal-dropped")
        if out[0] == "ok" and out[1] == real[1]:
            m.violation("no-token-ignored", f"{text!r} and {variant!r} (the only intercept removal deleted) both give {real[1]}",
                        case={**case, "variant": variant, "add_intercept": False, "where": where}, key="removal-ignored:" + where)


def drop_removal(ast):
    """The AST with its ONLY intercept removal (`0` or `-1` as an operand of a formula-level `+`) deleted, or None
    when there is none, more than one, a formula-level binary `-`, more than one literal 1 (`0 + 1` adds the
    intercept back, so there the removal legitimately has no effect) or a literal 1 inside a group-specific term."""
    found, ones = [], [0]

    def is_removal(nd):
        if nd[0] == "lit" and nd[2] is None and not isinstance(nd[1], bool) and nd[1] == 0:
            return True
        return nd[0] == "un" and nd[1] == "-" and nd[2][0] == "lit" and nd[2][2] is None and not isinstance(nd[2][1], bool) and nd[2][1] == 1

    def scan(nd, path, in_bar=False):
        k = nd[0]
        if is_removal(nd):
            found.append(path)
            return
        if k == "bin":
            if nd[1] == "-":
                raise LookupError
            in_bar = in_bar or nd[1] == "|"
            scan(nd[2], path + (2,), in_bar); scan(nd[3], path + (3,), in_bar)
        elif k == "un":
            scan(nd[2], path + (2,), in_bar)
        elif k == "lit" and nd[2] is None and not isinstance(nd[1], bool) and nd[1] == 1:
            if in_bar:
                raise LookupError  # `1 + 0` / `0 + 1` on the effect side of | is not a documented spelling: not judged
            ones[0] += 1

    def get(nd, path):
        for j in path:
            nd = nd[j]
        return nd

    try:
        scan(ast, ())
    except LookupError:
        return None
    if len(found) != 1 or ones[0] > 1 or not found[0]:
        return None
    path = found[0]
    parent = get(ast, path[:-1])
    if parent[0] != "bin" or parent[1] != "+":
        return None
    sibling = parent[3] if path[-1] == 2 else parent[2]

    def rebuild(nd, pth):
        if not pth:
            return sibling
        new_ = list(nd)
        new_[pth[0]] = rebuild(nd[pth[0]], pth[1:])
        return tuple(new_)

    # where the removal sits: as the RIGHT operand of a `+` that is itself an operand of another operator (other than
    # the left side of |, and other than ~) the sub-model `(z + 0)` only carries a flag, which the enclosing operator
    # drops (known finding D34); everything else is a different mechanism
    where = "other"
    leading = path[-1] == 2
    top = path[:-1]  # the `+` holding the removal; climb its left-associative chain `((0 + a) + b) + c`
    while top and top[-1] == 2 and get(ast, top[:-1])[0] == "bin" and get(ast, top[:-1])[1] == "+":
        top = top[:-1]
    if top:
        outer_nd = get(ast, top[:-1])
        outer = outer_nd[1] if outer_nd[0] in ("bin", "un") else None
        left_of_bar = outer_nd[0] == "bin" and outer == "|" and top[-1] == 2
        if outer is not None and outer != "~" and not left_of_bar:
            # trailing / middle `(z + 0)`: lost under every enclosing operator; leading `(0 + z)`: refused by an enclosing
            # binary `+` (so an accepted one there is NOT the known mechanism), lost under the others
            if not leading or not (outer_nd[0] == "bin" and outer == "+"):
                where = "inside-operand"
    return rebuild(ast, path[:-1]), where


def rename_one(ast, rng, fresh, every=False):
    """The AST with ONE variable occurrence renamed to a name the text does not contain, or None when
    the formula has a `-` or a `0` at formula level (a set difference may legitimately leave an operand
    without effect) or no variable."""
    spots = []

    def scan(nd, in_call, path):
        k = nd[0]
        if k == "bin":
            if nd[1] == "-" and not in_call:
                raise LookupError
            scan(nd[2], in_call, path + (2,)); scan(nd[3], in_call, path + (3,))
        elif k == "un":
            if nd[1] == "-" and not in_call:
                raise LookupError
            scan(nd[2], in_call, path + (2,))
        elif k == "call":
            for j, a in enumerate(nd[2]):
                scan(a, True, path + (2, j))
        elif k == "kw":
            scan(nd[2], in_call, path + (2,))
        elif k == "var":
            spots.append(path)
            if nd[2] is not None:
                spots.append(path + ("level",))
        elif k == "lit" and not in_call and nd[2] is None and nd[1] == 0 and not isinstance(nd[1], bool):
            raise LookupError  # `1 + 0` is an empty model, and an interaction with nothing is nothing

    try:
        scan(ast, False, ())
    except LookupError:
        return None
    if not spots:
        return None
    targets = spots if every else [rng.choice(spots)]

    def rebuild(nd, path):
        if path == ("level",):
            return ("var", nd[1], fresh)
        if not path:
            return ("var", fresh, nd[2])
        j = path[0]
        if nd[0] == "call" and j == 2:
            args = list(nd[2])
            args[path[1]] = rebuild(args[path[1]], path[2:])
            return (nd[0], nd[1], args)
        new = list(nd)
        new[j] = rebuild(nd[j], path[1:])
        return tuple(new)

    return [rebuild(ast, target) for target in targets]


DIRECTED = [
    # an intercept removal inside parentheses (refused on the pinned tree; if accepted it must count), and the ordinary spellings
    "y ~ x + (0 + z)", "y ~ (0 + z) + x", "y ~ x + (-1 + z)", "y ~ (x + (0 + z) | g)", "y ~ x + (z + 0)", "y ~ 0 + x", "y ~ x + 0", "y ~ -1 + x",
    "y ~ (0 + x | g)", "y ~ (x + 0 | g)", "y ~ x + (0 + z | g)",
    # a level away from the response
    "y ~ (1 | g[a])", "y ~ (x | g['a'])", "y ~ (1 | h:g[b])", "y ~ (1 | g[a] + h)", "y ~ (f[b] | g)", "y ~ (0 + f['b'] | g)", "y ~ (x:f[b] | g)",
    "y ~ x + f['b']", "y ~ x:f[b]", "y ~ f[b]:x + (1 | g)", "y ~ np.log(x[a])", "y ~ a[b] * c", "y ~ (a + b[c]) ** 2", "y ~ a / b[c]",
    "a[b]", "f(a, k=b[c])", "{a[b] + 1}", "y[a] ~ x", "y['a b'] ~ x + (1 | g)",
    # a formula with its own ~ in parentheses as an operand
    "x : (y ~ 0 + z)", "(y ~ 0 + z) : x", "x * (y ~ 0 + z)", "x / (y ~ z)", "x + (y ~ z)", "(y ~ 0 + z + w) ** 2", "(x | (y ~ g))", "((y ~ x) | g)",
    "f((y ~ x))", "(y ~ x)", "((y ~ x + z))",
    # group-specific terms under an operator that only looks at common terms
    "y ~ x : (z + w + (1 | g))", "y ~ x * (z + (1 | g))", "y ~ x / (z + (a | g))", "y ~ (x | g + h + (1 | k))", "y ~ (1 | g + (1 | k))",
    "y ~ (z + (1 | g)) : x", "y ~ (z + (1 | g)) ** 2", "y ~ ((1 | g) + z) / x", "y ~ x : (1 | g)", "y ~ (a | g) : (b | h)", "y ~ ((a | g) | h)",
    # a keyword given twice
    "y ~ f(x, k=a, k=b)", "f(k=a, k=b)", "y ~ (f(x, k=a, w=c, k=b) | g)", "{f(k=a, k=a)}",
    # exponents the algebra has no meaning for
    "y ~ (a + b) ** c", "y ~ (a + b) ** 2.5", "y ~ (a + b) ** f(c)", "y ~ (a + b) ** c:d", "y ~ a ** b",
]


def _printable(t):
    try:
        G.fp(t)
        return True
    except Exception:
        return False


def variants(text, toks, ref_ast, rng, call_mode="formula"):
    written = [t for t in toks if not t.inserted]
    out = []
    out.append(("ws-invariance", G.respace(text, rng, written), True))
    out.append(("ws-invariance", " ".join(t.lex for t in written), True))
    try:
        out.append(("paren-invariance", G.reparen(text, rng, call_mode=call_mode), True))
    except (G.NotSentence, RecursionError):
        pass
    try:
        out.append(("fp-invariance", G.fp(ref_ast), False))
    except Exception:
        pass
    return out


# ---------------------------------------------------------------------------------------------
# workloads
# ---------------------------------------------------------------------------------------------
def run_shard(i, n, tier, seed, m):
    install_whitebox(m)
    rng = random.Random(seed * 1000003 + i)
    L = 4 if tier == "quick" else 5
    # exhaustive strings: index k goes to shard k % n
    for length in range(1, L + 1):
        total = S.total_strings(length)
        for k in range(i, total, n):
            text = S.nth_string(k, length)
            m.cases += 1
            if length >= 2:
                m.distinct_count_only += 1
            if len(m.samples) < 3 and k % 977 == i:
                m.samples.append({"text": text, "origin": "enum"})
            m.current_case = {"text": text, "origin": "enum"}
            judge(text, m, rng, origin="enum")
    # generated sentences with whitespace / parentheses, and their mutants
    nsent = (20000 if tier == "quick" else 300000) // n
    srng = random.Random(seed * 7919 + i * 104729 + 1)
    for k in range(nsent):
        text, ast = S.sentence(srng)
        # self-check of the reference: round trip of the generating AST
        try:
            back = G.parse(text, add_intercept=False)
            m.ev("reference-roundtrip")
            if not ast_eq(back, ast):
                # literals such as "007" legitimately normalise; compare through fp
                if G.fp(back) != G.fp(ast):
                    m.note("reference-roundtrip-mismatch")
        except G.NotSentence:
            m.note("reference-roundtrip-reject")
        style = srng.random()
        if style < 0.4:
            try:
                text = G.minimal(ast, srng, extra=0.25)
            except Exception:
                pass
        if style > 0.3:
            try:
                text = G.respace(text, srng)
            except G.NotSentence:
                pass
        canon = " ".join(text.split())
        m.case({"text": text, "origin": "sentence"}, canon=canon, nontrivial=any(c in canon for c in "+-*/:|("))
        judge(text, m, srng, origin="sentence")
        if k % 2 == 0:
            mt = S.mutate(canon, srng)
            m.case({"text": mt, "origin": "mutant"}, canon=mt, nontrivial=True)
            judge(mt, m, srng, origin="mutant")
    # directed: the constructs that are refused rather than interpreted, each with EVERY variable / level renamed in turn
    for j, t in enumerate(DIRECTED):
        if j % n == i:
            m.case({"text": t, "origin": "directed"}, canon=t, nontrivial=True)
            judge(t, m, srng, origin="directed")
    # hostile: deep nesting and long sums, below the recursion limit
    if i == 0:
        for depth in (5, 20, 60):
            t = "y ~ " + "(" * depth + "a" + ")" * depth
            m.case({"text": t, "origin": "hostile"}, canon=t)
            judge(t, m, srng, origin="hostile")
            t = "y ~ " + "(" * depth + "a" + ")" * (depth - 1)
            m.case({"text": t, "origin": "hostile"}, canon=t)
            judge(t, m, srng, origin="hostile")
        for width in (10, 100, 300):
            t = "y ~ " + " + ".join(f"v{j}" for j in range(width))
            m.case({"text": t, "origin": "hostile"}, canon=t)
            judge(t, m, srng, origin="hostile")
            t2 = t + " v999"
            m.case({"text": t2, "origin": "hostile"}, canon=t2)
            judge(t2, m, srng, origin="hostile")


def replay(rec, m):
    install_whitebox(m)
    case = rec["case"]
    rng = random.Random(rec.get("seed", 0))
    text = case.get("text")
    if text is None and "tokens" in case:
        text = " ".join(case["tokens"])
    judge(text, m, rng, origin="replay")
    if "variant" in case:
        with core.shadow():
            a, b = real_model(text), real_model(case["variant"], case.get("add_intercept", True))
        if not same_outcome(a, b):
            m.violation("variant", f"{a} vs {b}", case=case, key="variant")
