"""C15 - response handling.

Deciding monitor (boundary) on design_matrices(...).response:
  numeric-unchanged         a numeric response (variable or call) holds the values unchanged
  categorical-indicators    one indicator column per level, sorted (unordered data) or declared order
                            (ordered data), `levels` lists them, kind is 'categoric'
  level-indicator           y[level] / y['quoted level'] is one 0/1 column, 1 exactly where y equals the level
  proportion-columns        prop / p / proportion(y, n | constant): the two columns successes, trials
  single-term-response      a:b ~, a + b ~, a*b ~, (a|g) ~, 1 ~ are refused; without ~ the response is None
  predictors-independent    (relational) common and group matrices, labels and slices are identical
                            whatever response is named
"""
import random

import numpy as np
import pandas as pd

from fmon import core, attach
from workloads import designs as D

PROP = "C15"
DECIDING = ["numeric-unchanged", "categorical-indicators", "level-indicator", "proportion-columns",
            "single-term-response", "predictors-independent"]


def spec(tier):
    return {
        "level": "exploration",
        "deciding": DECIDING,
        "timeout": 900 if tier == "quick" else 5400,
        "rule": (
            "seeded random right-hand sides (plain / stateful atoms, interactions, group terms) x response forms "
            "(float, int, call, str, object, unordered Categorical with categories declared unsorted, ordered "
            "Categorical with a declared but unobserved level, y[ident], y['quoted level'] on each categorical kind, "
            "prop / p / proportion with column or constant trials, none) on frames of 1..40 rows incl. single-row and "
            "single-level frames, a fifth with hostile level names; each right-hand side is built with every response "
            "form and the predictor matrices are compared. distinct = distinct (formula, frame seed); non-trivial = "
            "response is not a plain float column."
        ),
        "assumptions": ["shapes: categorical and proportion responses are 2-d (n, k); numeric and y[level] responses have n entries"],
        "classify": lambda v: v.get("key"),
    }


def response_forms(df, meta, rng):
    """(text, kind, expected) ; expected built from the frame alone."""
    n = len(df)
    forms = [("y", "numeric", df["y"].to_numpy(dtype=float)),
             ("cnt", "numeric", df["cnt"].to_numpy(dtype=float)),
             ("np.log(w)", "numeric", np.log(df["w"].to_numpy(dtype=float))),
             ("I(x + 1)", "numeric", df["x"].to_numpy(dtype=float) + 1),
             ("`col 1`", "numeric", df["col 1"].to_numpy(dtype=float)),
             # calls whose callee / argument only exists in extra_namespace
             ("dbl(y)", "numeric", df["y"].to_numpy(dtype=float) * 2),
             ("shift1(y, by=3)", "numeric", df["y"].to_numpy(dtype=float) + 3),
             ("shift1(y, by=gain)", "numeric", df["y"].to_numpy(dtype=float) + 3.0),
             ("shift1(y, by=gain * 2)", "numeric", df["y"].to_numpy(dtype=float) + 6.0)]
    for col in ("ybig", "ybigN"):
        forms.append((col, "numeric-exact", [int(v) for v in df[col].tolist()]))
    for col in ("s", "o", "cu", "co", "yb"):
        lv = meta[col]["levels"]
        rows = np.asarray(df[col].tolist(), dtype=object)
        forms.append((col, "categoric", (lv, np.column_stack([(rows == l).astype(float) for l in lv]))))
        for l in rng.sample(lv, min(2, len(lv))):
            want = (rows == l).astype(float)
            ident = isinstance(l, str) and l != "" and l[0].isalpha() and all(c.isalnum() or c in "._" for c in l) \
                and l not in ("True", "False", "None")
            if ident:
                forms.append((f"{col}[{l}]", "level", want))
            if "'" not in str(l) and '"' not in str(l):
                forms.append((f"{col}['{l}']", "level", want))
                forms.append((f'{col}["{l}"]', "level", want))
    succ, tr = df["succ"].to_numpy(), df["tr"].to_numpy()
    const = int(max(succ.max(), 1)) + 3
    for fn in ("prop", "p", "proportion"):
        forms.append((f"{fn}(succ, tr)", "proportion", np.column_stack([succ, tr]).astype(float)))
        forms.append((f"{fn}(succ, {const})", "proportion", np.column_stack([succ, np.full(n, const)]).astype(float)))
    # narrow integer dtypes for the successes, trials beyond their range
    n_big = 300
    for dt in ("uint8", "int8", "int16"):
        forms.append((f"prop(succ_{dt}, tr_big)", "proportion", np.column_stack([succ, np.full(n, n_big + 1)]).astype(float)))
        forms.append((f"prop(succ_{dt}, {n_big})", "proportion", np.column_stack([succ, np.full(n, n_big)]).astype(float)))
    # redundant parentheses / unary plus around the response change nothing
    wrapped = []
    for text, kind, want in forms:
        if text in ("y", "np.log(w)", "prop(succ, tr)", "yb") or (kind == "level" and rng.random() < 0.5):
            wrapped.append((f"({text})", kind, want))
            wrapped.append((f"+{text}", kind, want))
    forms += wrapped
    forms.append((None, "none", None))
    return forms


def predictors(dm):
    out = {}
    for nm, part in (("common", dm.common), ("group", dm.group)):
        if part is None:
            out[nm] = None
            continue
        out[nm] = (np.asarray(part.design_matrix, dtype=float), [(k, v.start, v.stop) for k, v in part.slices.items()],
                   [list(t.labels) for t in part.terms.values()])
    return out


def same_predictors(a, b):
    for nm in ("common", "group"):
        if (a[nm] is None) != (b[nm] is None):
            return f"{nm}: present in one design only"
        if a[nm] is None:
            continue
        if a[nm][0].shape != b[nm][0].shape or not np.array_equal(a[nm][0], b[nm][0], equal_nan=True):
            return f"{nm}: matrices differ"
        if a[nm][1] != b[nm][1] or a[nm][2] != b[nm][2]:
            return f"{nm}: slices / labels differ"
    return None


def judge(case, m):
    import formulae

    df, meta = D.case_frame(case["frame"])
    if case.get("single_level"):
        for col in ("s", "cu", "yb"):
            first = df[col].iloc[0]
            if isinstance(df[col].dtype, pd.CategoricalDtype):
                df[col] = pd.Categorical([first] * len(df), categories=df[col].dtype.categories, ordered=False)
            else:
                df[col] = pd.Series([first] * len(df), dtype="str")
            meta[col]["levels"] = [first]
    if case.get("unobserved"):
        # ordered categorical with a declared level that never occurs; unordered one declared in reverse order
        cats = list(df["co"].dtype.categories)
        df["co"] = pd.Categorical(df["co"].tolist(), categories=cats[:1] + ["never seen"] + cats[1:], ordered=True)
        meta["co"]["levels"] = cats[:1] + ["never seen"] + cats[1:]
    for dt in ("uint8", "int8", "int16"):
        df[f"succ_{dt}"] = df["succ"].astype(dt)
    df["tr_big"] = np.full(len(df), 301, dtype="int64")
    # integers a float64 cannot hold (nanosecond timestamps, ids): as numpy int64 and as nullable Int64
    bigs = [2 ** 53 + 1 + 2 * j if j % 3 else -(2 ** 60) - 7 - j for j in range(len(df))]
    df["ybig"] = np.array(bigs, dtype="int64")
    df["ybigN"] = pd.array(bigs, dtype="Int64")
    ns = D.namespace(meta)
    # a bare level name in y[level] is a level, not a variable: strings called like the levels are visible from the caller
    for col in ("s", "o", "cu", "co", "yb"):
        lv = [l for l in meta[col]["levels"] if isinstance(l, str)]
        for j, l in enumerate(lv):
            if l.isidentifier() and l not in df.columns and l not in ns:
                ns[l] = lv[(j + 1) % len(lv)]
    rhs_case = {**case, "resp": None}
    rhs = D.formula_text(rhs_case)
    rng = random.Random(case["frame"]["seed"] + 15)
    n = len(df)
    base = None
    for text, kind, want in response_forms(df, meta, rng):
        formula = (text + " ~ " + rhs) if text else rhs
        c = {**case, "text": formula, "response": text, "response_kind": kind}
        m.current_case = c
        try:
            dm = formulae.design_matrices(formula, df, extra_namespace=ns)
        except Exception as e:
            if base is None and kind == "numeric" and text == "y":
                m.note("design-raised:" + type(e).__name__)
                return
            if base is not None:
                m.ev({"numeric": "numeric-unchanged", "numeric-exact": "numeric-unchanged", "categoric": "categorical-indicators", "level": "level-indicator",
                      "proportion": "proportion-columns", "none": "single-term-response"}[kind])
                m.violation("predictors-independent", f"{formula}: raised {type(e).__name__}: {e} although 'y ~ {rhs}' builds",
                            case=c, key="raises:" + kind)
            continue
        pred = predictors(dm)
        if base is None:
            base = pred
        else:
            m.ev("predictors-independent")
            d = same_predictors(base, pred)
            if d:
                m.violation("predictors-independent", f"{formula} vs 'y ~ {rhs}': {d}", case=c, key="predictors:" + d.split(":")[0])
        R = dm.response
        m.cls("response:" + kind + (":" + meta[text]["kind"] if text in meta and kind == "categoric" else ""))
        if kind == "none":
            m.ev("single-term-response")
            if R is not None:
                m.violation("single-term-response", f"{formula}: no ~ but response is {R!r}", case=c, key="response-not-none")
            continue
        if R is None:
            m.violation("single-term-response", f"{formula}: response is None", case=c, key="response-missing")
            continue
        X = np.asarray(R.design_matrix)
        if kind == "numeric":
            m.ev("numeric-unchanged")
            if X.size != n or X.shape[:1] != (n,) or not np.allclose(X.reshape(n).astype(float), want, rtol=1e-12, atol=0):
                m.violation("numeric-unchanged", f"{formula}: response of shape {X.shape} does not hold the {n} values unchanged",
                            case=c, key="numeric")
            elif R.kind != "numeric":
                m.violation("numeric-unchanged", f"{formula}: kind {R.kind!r}", case=c, key="numeric-kind")
        elif kind == "numeric-exact":
            m.ev("numeric-unchanged")
            try:
                got = [int(v) for v in X.reshape(n).tolist()]
            except Exception as e:
                got = repr(e)
            if got != want:
                m.violation("numeric-unchanged", f"{formula}: integer response values beyond 2**53 are not held unchanged "
                            f"(dtype {X.dtype}, first {str(got)[:60]} vs {str(want)[:60]})", case=c, key="numeric-exact")
        elif kind == "categoric":
            m.ev("categorical-indicators")
            lv, W = want
            if X.shape != W.shape or not np.array_equal(X.astype(float), W):
                m.violation("categorical-indicators", f"{formula}: response {X.shape} is not one indicator per level {lv} in that order",
                            case=c, key="categorical:columns")
            elif list(R.levels or []) != [str(l) for l in lv] and list(R.levels or []) != list(lv):
                m.violation("categorical-indicators", f"{formula}: levels {R.levels} vs {lv}", case=c, key="categorical:levels")
            elif R.kind != "categoric":
                m.violation("categorical-indicators", f"{formula}: kind {R.kind!r}", case=c, key="categorical:kind")
        elif kind == "level":
            m.ev("level-indicator")
            if X.size != n or X.shape[:1] != (n,) or not np.array_equal(X.reshape(n).astype(float), want):
                m.violation("level-indicator", f"{formula}: response {X.shape} is not the 0/1 indicator of the level", case=c, key="level")
        elif kind == "proportion":
            m.ev("proportion-columns")
            if X.shape != want.shape or not np.array_equal(X.astype(float), want):
                m.violation("proportion-columns", f"{formula}: response {X.shape} is not (successes, trials)", case=c, key="proportion")
            elif R.kind != "proportion":
                m.violation("proportion-columns", f"{formula}: kind {R.kind!r}", case=c, key="proportion-kind")
    # a right-hand side without any term: the response is still there
    for empty in ("0", "-1", "1 - 1", "0 + 0"):
        for text, kind, want in (("y", "numeric", df["y"].to_numpy(dtype=float)), ("yb", "categoric", None), ("prop(succ, tr)", "proportion", None)):
            m.ev("single-term-response")
            formula = f"{text} ~ {empty}"
            try:
                dm = formulae.design_matrices(formula, df, extra_namespace=ns)
            except Exception as e:
                m.note("empty-rhs-raised:" + type(e).__name__)
                continue
            if dm.response is None or np.asarray(dm.response.design_matrix).shape[0] != n:
                m.violation("single-term-response", f"'{formula}': the response is missing although it is named", case={**case, "text": formula},
                            key="response-missing-empty-rhs")
            elif kind == "numeric" and not np.allclose(np.asarray(dm.response.design_matrix, dtype=float).reshape(n), want):
                m.violation("numeric-unchanged", f"'{formula}': response values changed", case={**case, "text": formula}, key="numeric")
    # y[level] under na_action='pass' with missing responses (ordered categorical): a missing value equals no level
    if len(df) >= 4 and not case.get("single_level"):
        dfp = df.copy()
        miss = np.zeros(len(df), bool)
        miss[[0, len(df) // 2]] = True
        dfp["co"] = pd.Categorical([None if q else v for q, v in zip(miss, df["co"].tolist())], categories=df["co"].dtype.categories, ordered=True)
        rows_co = np.asarray(dfp["co"].tolist(), dtype=object)
        for l in meta["co"]["levels"]:
            formula = f"co['{l}'] ~ 1"
            c = {**case, "text": formula, "response": f"co['{l}']", "response_kind": "level", "na_action": "pass"}
            m.current_case = c
            m.ev("level-indicator")
            try:
                R = np.asarray(formulae.design_matrices(formula, dfp, na_action="pass", extra_namespace=ns).response.design_matrix, dtype=float).reshape(-1)
                want = np.array([1.0 if v == l else 0.0 for v in rows_co])
                bad = (R.shape != want.shape) or np.any((R != want) & ~(miss & np.isnan(R)))
                if bad:
                    m.violation("level-indicator", f"{formula} under na_action='pass' with missing responses on rows {np.flatnonzero(miss).tolist()}: "
                                f"response {R.tolist()[:8]} is not the indicator of the level", case=c, key="level:missing-response")
            except Exception as e:
                m.note("pass-with-missing-response-raised:" + type(e).__name__)
    # refused forms
    lv_s = meta["s"]["levels"]
    two = [l for l in lv_s if "'" not in str(l)][:2]
    extra_refused = [f"s['{two[0]}']:s['{two[-1]}']", f"s:s['{two[0]}']", f"yb['yes']:yb"] if len(two) == 2 and two[0] != two[-1] else ["yb['yes']:yb"]
    for lhs in ["x:z", "x + z", "x*z", "(x | g)", "1", "0", "s:h"] + extra_refused:
        m.ev("single-term-response")
        try:
            formulae.design_matrices(f"{lhs} ~ {rhs}", df, extra_namespace=ns)
            m.violation("single-term-response", f"'{lhs} ~ ...' accepted", case={**case, "text": f"{lhs} ~ {rhs}"}, key="accepted:" + lhs)
        except Exception:
            pass


def run_shard(i, n, tier, seed, m):
    rng = random.Random(seed * 1000003 + i * 53 + 15)
    ncases = (640 if tier == "quick" else 12000) // n
    for k in range(ncases):
        case = D.random_case(rng, profile="plain" if k % 2 else "stateful", hostile=(k % 5 == 0), group_p=0.4,
                             max_terms=3, min_rows=1 if k % 6 == 0 else 6, max_rows=3 if k % 6 == 0 else 40)
        case["single_level"] = k % 7 == 3
        case["unobserved"] = k % 3 == 1
        text = D.formula_text({**case, "resp": None})
        m.case({**case, "text": text}, canon=[text, case["frame"]["seed"]], nontrivial=True)
        judge(case, m)


def replay(rec, m):
    judge(rec["case"], m)
