"""C16 - built-in helper functions and aliases keep their documented pointwise meaning.

Deciding monitor (boundary), at training time and on new frames:
  binary-indicator      binary(x, s) is 1 exactly where x equals s (s omitted: the smallest training value),
                        an s that never occurs in training is refused, prediction uses the TRAINING s
  offset-unchanged      offset(v) contributes v unchanged (column, call), a constant is broadcast; at
                        prediction it is recomputed from the new frame
  proportion-validated  prop validates integer successes <= trials; response.evaluate_new_data reports the
                        trials of the NEW frame (column or constant)
  identity              I(e) / {e} is e
  aliases-synonymous    B = binary, p = prop = proportion, standardize = scale, T(x, r) = C(x, Treatment(r)),
                        S(x, o) = C(x, Sum(o)): identical matrices at training and on new frames
"""
import random

import numpy as np
import pandas as pd

from fmon import core, attach

PROP = "C16"
DECIDING = ["binary-indicator", "offset-unchanged", "proportion-validated", "identity", "aliases-synonymous"]


def spec(tier):
    return {
        "level": "exploration",
        "deciding": DECIDING,
        "timeout": 900 if tier == "quick" else 5400,
        "rule": (
            "seeded frames (float, int incl. 0 and negative values, str columns with hostile levels incl. the empty "
            "string; trial columns that are constant in training) x success values (every level, falsy ones, omitted, "
            "absent) x offsets (float column, int column, call, integer arithmetic, constants) x trial specifications "
            "(column, constant, constant bound by name - also against a new frame with a column of that name) x identity of numeric, str, categorical and ordered categorical arguments x new frames (subsets lacking the success level / the smallest value, fractional "
            "values, other trials). distinct = distinct (helper expression, frame seed); non-trivial = always."
        ),
        "assumptions": ["offset(-1) is a unary expression, not a constant: executed, not judged"],
        "classify": lambda v: v.get("key"),
    }


def frames_for(seed):
    rng = np.random.default_rng(seed)
    n = int(rng.integers(6, 30))
    # the fifth set: MICRO SIGN, ANGSTROM SIGN, u-umlaut, a backslash - strings that must reach the helper as written
    s_lv = [["a", "b", "c"], ["", "e", "f"], ["lo", "mid", "hi", "top"], ["x:y", "x", "y"],
            ["\u00b5g", "\u212b", "Z\u00fcrich", "a\\nb"]][int(rng.integers(0, 5))]
    idx = np.arange(n) % len(s_lv)
    rng.shuffle(idx)
    tr_const = rng.random() < 0.4
    df = pd.DataFrame({
        "y": rng.normal(size=n),
        "x": rng.normal(size=n),
        "w": rng.uniform(0.5, 2, size=n),
        "e": rng.integers(-3, 4, size=n),  # ints incl. 0 and negative values
        "k": rng.integers(0, 3, size=n),
        "s": pd.Series([s_lv[i] for i in idx], dtype="str"),
        "tr": np.full(n, 9) if tr_const else rng.integers(4, 12, size=n),
    })
    df.loc[df.index[0], "e"] = 0
    df.loc[df.index[1], "e"] = -3
    df.loc[df.index[0], "k"] = 0
    df.loc[df.index[1], "k"] = 2
    df["succ"] = np.minimum(rng.integers(0, 5, size=n), df["tr"].to_numpy())
    m2 = int(rng.integers(3, 12))
    new = pd.DataFrame({
        "y": rng.normal(size=m2),
        "x": rng.normal(size=m2) * 3 + 1,
        "w": rng.uniform(0.5, 2, size=m2),
        "e": rng.integers(-3, 4, size=m2).astype(float) + rng.choice([0.0, 0.5, 0.75], size=m2),  # fractional
        "k": rng.integers(1, 3, size=m2),  # lacks the smallest training value 0
        "s": pd.Series([s_lv[1 + i % (len(s_lv) - 1)] for i in range(m2)], dtype="str"),  # lacks the first level
        "tr": rng.integers(12, 20, size=m2),
    })
    new["succ"] = np.minimum(rng.integers(0, 5, size=m2), new["tr"].to_numpy())
    # floats that are distinct but close (relative 1e-5 .. 1e-6): equality is exact
    fc_vals = np.array([2499.98, 2500.0, 2500.02, 0.5, 0.500001])
    df["fc"] = fc_vals[np.arange(n) % 5][rng.permutation(n)]
    new["fc"] = fc_vals[1 + np.arange(m2) % 4]  # lacks the smallest training value... of the large ones
    df["bl"] = np.arange(n) % 3 == 0
    new["bl"] = np.arange(m2) % 2 == 1
    # the same strings as categorical dtypes whose declared order is not the sorted one
    decl = sorted(s_lv, reverse=True)
    for d in (df, new):
        d["sc"] = pd.Categorical(d["s"].tolist(), categories=decl)
        d["so"] = pd.Categorical(d["s"].tolist(), categories=decl, ordered=True)
    return df, new, s_lv


def col(dm_part, name):
    return np.asarray(dm_part[name], dtype=float)


def judge(case, m):
    import formulae

    df, new, s_lv = frames_for(case["seed"])
    n = len(df)
    m.current_case = case
    rng = random.Random(case["seed"])

    # objects called like the helpers in the caller's extra_namespace must not shadow the built-ins
    decoys = {}
    if case["seed"] % 2:
        decoys = {"p": 0.5, "T": 10, "I": np.eye(2), "B": (lambda *a, **k: None), "offset": 3, "binary": "b", "prop": None,
                  "proportion": 1, "S": [1], "C": {}, "standardize": 0, "scale": 1.0, "Treatment": 2, "Sum": sum, "center": "c"}

    n_const = int(max(df["succ"].max(), new["succ"].max())) + 2

    def build(text):
        return formulae.design_matrices(text, df, extra_namespace={**decoys, "rate": 2.5, "n_const": n_const})

    # ---- binary / B -------------------------------------------------------------------------
    for fn in ("binary", "B"):
        for colname, values in (("s", sorted(set(df["s"]))), ("e", sorted(set(df["e"].tolist()))), ("k", sorted(set(df["k"].tolist()))),
                                ("sc", sorted(set(df["s"]))), ("so", sorted(set(df["s"]))), ("fc", sorted(set(df["fc"].tolist()))), ("bl", [False, True])):
            choices = [None] + list(values)
            for succ in rng.sample(choices, min(3, len(choices))) + ([0] if colname in ("e", "k") else [""] if "" in values else []):
                lit = "" if succ is None else (", " + (repr(succ) if not isinstance(succ, str) else "'" + succ + "'"))
                term = f"{fn}({colname}{lit})"
                c = {**case, "text": "y ~ " + term}
                m.ev("binary-indicator")
                eff = values[0] if succ is None else succ
                try:
                    dm = build("y ~ " + term)
                except Exception as e:
                    m.violation("binary-indicator", f"{term}: {type(e).__name__}: {e}", case=c, key="binary:raises")
                    continue
                got = col(dm.common, term).reshape(-1)
                want = (np.asarray(df[colname].tolist(), dtype=object) == eff).astype(float)
                if not np.array_equal(got, want):
                    m.violation("binary-indicator", f"{term}: not the indicator of {eff!r} at training", case=c, key="binary:training")
                    continue
                try:
                    got2 = col(dm.common.evaluate_new_data(new), term).reshape(-1)
                    want2 = (np.asarray(new[colname].tolist(), dtype=object) == eff).astype(float)
                    if not np.array_equal(got2, want2):
                        m.violation("binary-indicator", f"{term}: prediction does not use the training success {eff!r}", case=c,
                                    key="binary:prediction")
                except Exception as e:
                    m.violation("binary-indicator", f"{term}: prediction raised {type(e).__name__}: {e}", case=c, key="binary:prediction-raises")
            # a success value that never occurs in training is refused (falsy values included)
            absents = ["'never'"] + ([] if "" in values else ["''"]) if colname in ("s", "sc", "so") else ["99"]
            if colname == "fc":
                absents = ["2500.01", "0.5000005", "2499.979"]
            for absent in absents:
                m.ev("binary-indicator")
                try:
                    build(f"y ~ {fn}({colname}, {absent})")
                    m.violation("binary-indicator", f"{fn}({colname}, {absent}) accepted although the value never occurs", case=case, key="binary:absent-accepted")
                except Exception:
                    pass
        for absent_term in (f"{fn}(w, 0)", f"{fn}(w, 0.0)", f"{fn}(tr, 0)", f"{fn}(w, False)"):
            m.ev("binary-indicator")
            try:
                build("y ~ " + absent_term)
                m.violation("binary-indicator", f"{absent_term} accepted although the value never occurs", case=case, key="binary:absent-accepted")
            except Exception:
                pass
    # ---- offset -----------------------------------------------------------------------------
    offs = [("offset(x)", lambda d: d["x"].to_numpy(dtype=float)), ("offset(e)", lambda d: d["e"].to_numpy(dtype=float)),
            ("offset(np.log(w))", lambda d: np.log(d["w"].to_numpy(dtype=float))), ("offset(2 * e)", lambda d: 2 * d["e"].to_numpy(dtype=float)),
            ("offset(e + k)", lambda d: d["e"].to_numpy(dtype=float) + d["k"].to_numpy(dtype=float)),
            ("offset(x * rate)", lambda d: d["x"].to_numpy(dtype=float) * 2.5), ("offset(rate)", lambda d: np.full(len(d), 2.5)),
            ("offset(3)", lambda d: np.full(len(d), 3.0)), ("offset(2.5)", lambda d: np.full(len(d), 2.5)), ("offset(0)", lambda d: np.zeros(len(d)))]
    for term, fn in offs:
        c = {**case, "text": "y ~ x + " + term}
        m.ev("offset-unchanged")
        try:
            dm = build("y ~ x + " + term)
            got = col(dm.common, term).reshape(-1)
            if not np.allclose(got, fn(df), rtol=1e-12, atol=0):
                m.violation("offset-unchanged", f"{term}: training values changed", case=c, key="offset:training")
                continue
            got2 = col(dm.common.evaluate_new_data(new), term).reshape(-1)
            if got2.shape != (len(new),) or not np.allclose(got2, fn(new), rtol=1e-12, atol=0):
                m.violation("offset-unchanged", f"{term}: at prediction it is not recomputed from the new frame "
                            f"(got {got2[:3].tolist()}, expected {fn(new)[:3].tolist()})", case=c, key="offset:prediction")
            if dm.common.terms[term].kind != "offset":
                m.violation("offset-unchanged", f"{term}: kind {dm.common.terms[term].kind!r}", case=c, key="offset:kind")
        except Exception as e:
            m.violation("offset-unchanged", f"{term}: {type(e).__name__}: {e}", case=c, key="offset:raises")
    try:
        build("y ~ x + offset(-1)").common.evaluate_new_data(new)
        m.note("offset(-1)-works")
    except Exception:
        m.note("offset(-1)-raises-not-judged")
    # ---- prop / p / proportion -----------------------------------------------------------------
    const = int(max(df["succ"].max(), new["succ"].max())) + 2
    results = {}
    for fn in ("prop", "p", "proportion"):
        for trials, tfun in (("tr", lambda d: d["tr"].to_numpy(dtype=float)), (str(const), lambda d: np.full(len(d), float(const))),
                             ("n_const", lambda d: np.full(len(d), float(const)))):  # the constant given by a name in scope
            text = f"{fn}(succ, {trials}) ~ x"
            c = {**case, "text": text}
            m.ev("proportion-validated")
            try:
                dm = build(text)
                R = np.asarray(dm.response.design_matrix, dtype=float)
                if R.shape != (n, 2) or not np.array_equal(R[:, 0], df["succ"].to_numpy(dtype=float)) or not np.array_equal(R[:, 1], tfun(df)):
                    m.violation("proportion-validated", f"{text}: response is not (successes, trials)", case=c, key="prop:training")
                t2 = np.asarray(dm.response.evaluate_new_data(new), dtype=float).reshape(-1)
                if t2.shape != (len(new),) or not np.array_equal(t2, tfun(new)):
                    m.violation("proportion-validated", f"{text}: prediction reports trials {t2[:4].tolist()}, the new frame has "
                                f"{tfun(new)[:4].tolist()}", case=c, key="prop:prediction")
                results[(fn, trials)] = (R, t2)
                if trials == "n_const":
                    # the constant was bound at training (no such column there): a new frame that happens to carry
                    # a column of that name, or a frame without any of the training columns, reports the same constant
                    extra = new.copy()
                    extra["n_const"] = np.arange(len(new)) + 1
                    for fr, what in ((extra, "a column named like the constant"), (new[["x"]], "only x")):
                        t3 = np.asarray(dm.response.evaluate_new_data(fr), dtype=float).reshape(-1)
                        if t3.shape != (len(new),) or not np.array_equal(t3, tfun(new)):
                            m.violation("proportion-validated", f"{text}: trials bound to the constant {const} at training, a new frame with {what} "
                                        f"reports {t3[:4].tolist()}", case=c, key="prop:prediction-constant-rebound")
            except Exception as e:
                m.violation("proportion-validated", f"{text}: {type(e).__name__}: {e}", case=c, key="prop:raises")
    bad = df.copy()
    bad["succ_frac"] = bad["succ"] + 0.5
    bad["succ_big"] = bad["tr"] + 1
    bad["tr_frac"] = bad["tr"] + 0.5
    bad["succ_near"] = bad["succ"] * 100 + 250 + 0.002  # not integers, but close in relative terms
    bad["tr_near"] = bad["tr"] * 100 + 500 + 0.004
    bad["tr_far"] = bad["tr"] * 100 + 1000
    # unsigned dtypes: successes above trials must be refused there too (no wrap-around)
    # whole numbers stored as floats (a count column that once held a missing value) are valid counts
    fl = df.copy()
    fl["succ"], fl["tr"] = fl["succ"].astype(float), fl["tr"].astype(float)
    m.ev("proportion-validated")
    try:
        R = np.asarray(formulae.design_matrices("prop(succ, tr) ~ x", fl).response.design_matrix, dtype=float)
        if not np.array_equal(R[:, 0], df["succ"].to_numpy(dtype=float)) or not np.array_equal(R[:, 1], df["tr"].to_numpy(dtype=float)):
            m.violation("proportion-validated", "float columns holding whole numbers: response is not (successes, trials)", case=case, key="prop:training")
    except Exception as e:
        m.violation("proportion-validated", f"whole numbers in float columns refused: {type(e).__name__}: {e}", case=case, key="prop:raises")
    z1 = df.copy()
    z1["succ"] = (np.arange(n) % 2).astype(float)
    z1["tr"] = np.full(n, 7.0)
    m.ev("proportion-validated")
    try:
        R = np.asarray(formulae.design_matrices("prop(succ, tr) ~ x", z1).response.design_matrix, dtype=float)
        if not np.array_equal(R[:, 0], z1["succ"].to_numpy()) or not np.array_equal(R[:, 1], z1["tr"].to_numpy()):
            m.violation("proportion-validated", f"0 / 1 successes out of 7 in float columns: response is {R[:3].tolist()}", case=case, key="prop:training")
    except Exception as e:
        m.violation("proportion-validated", f"0 / 1 successes in float columns refused: {type(e).__name__}: {e}", case=case, key="prop:raises")
    for dt in ("uint8", "uint32", "uint64"):
        ub = df.copy()
        ub["tr"] = ub["tr"].astype(dt)
        ub["succ"] = (ub["tr"] + 2).astype(dt)
        m.ev("proportion-validated")
        try:
            formulae.design_matrices("prop(succ, tr) ~ x", ub)
            m.violation("proportion-validated", f"successes above trials accepted for {dt} columns", case={**case, "text": "prop(succ, tr) ~ x", "dtype": dt},
                        key="prop:invalid-accepted")
        except Exception:
            pass
        ok = df.copy()
        ok["tr"], ok["succ"] = ok["tr"].astype(dt), ok["succ"].astype(dt)
        m.ev("proportion-validated")
        try:
            R = np.asarray(formulae.design_matrices("prop(succ, tr) ~ x", ok).response.design_matrix, dtype=float)
            if not np.array_equal(R[:, 0], df["succ"].to_numpy(dtype=float)) or not np.array_equal(R[:, 1], df["tr"].to_numpy(dtype=float)):
                m.violation("proportion-validated", f"{dt} columns: response is not (successes, trials)", case=case, key="prop:training")
        except Exception as e:
            m.violation("proportion-validated", f"valid {dt} columns refused: {type(e).__name__}: {e}", case=case, key="prop:raises")
    for text in ("prop(succ_near, tr_far) ~ x", "prop(succ, tr_near) ~ x", "prop(succ_frac, tr) ~ x", "prop(succ_big, tr) ~ x", "prop(succ, tr_frac) ~ x", "prop(succ, 0) ~ x" if df["succ"].max() > 0 else "prop(succ_big, 1) ~ x",
                 "y ~ prop(succ, tr)"):
        m.ev("proportion-validated")
        try:
            formulae.design_matrices(text, bad)
            m.violation("proportion-validated", f"{text}: accepted", case={**case, "text": text}, key="prop:invalid-accepted")
        except Exception:
            pass
    # ---- identity ---------------------------------------------------------------------------
    for term, fn in (("I(x)", lambda d: d["x"].to_numpy(dtype=float)), ("{x + e}", lambda d: d["x"].to_numpy(dtype=float) + d["e"].to_numpy(dtype=float)),
                     ("I(x * 2 - w)", lambda d: d["x"].to_numpy(dtype=float) * 2 - d["w"].to_numpy(dtype=float))):
        m.ev("identity")
        name = term.replace("{", "I(").replace("}", ")")
        try:
            dm = build("y ~ " + term)
            a, b = col(dm.common, name).reshape(-1), col(dm.common.evaluate_new_data(new), name).reshape(-1)
            if not np.allclose(a, fn(df), rtol=1e-12) or not np.allclose(b, fn(new), rtol=1e-12):
                m.violation("identity", f"{term} is not its argument", case={**case, "text": term}, key="identity")
        except Exception as e:
            m.violation("identity", f"{term}: {type(e).__name__}: {e}", case={**case, "text": term}, key="identity:raises")
    # the identity of a categorical argument: same levels in the same (declared) order, same reference, same columns
    for cname in ("s", "sc", "so"):
        for term in (f"I({cname})", "{" + cname + "}"):
            m.ev("identity")
            name = f"I({cname})"
            c = {**case, "text": term}
            try:
                d1, d0 = build("y ~ " + term), build("y ~ " + cname)
                l1 = [x.replace(name, cname) for x in d1.common.as_dataframe().columns]
                l0 = list(d0.common.as_dataframe().columns)
                A1, A0 = np.asarray(d1.common.design_matrix, dtype=float), np.asarray(d0.common.design_matrix, dtype=float)
                if l1 != l0 or A1.shape != A0.shape or not np.array_equal(A1, A0):
                    m.violation("identity", f"{term} is not coded like {cname}: columns {l1} vs {l0}", case=c, key="identity:categorical")
                    continue
                N1 = np.asarray(d1.common.evaluate_new_data(new).design_matrix, dtype=float)
                N0 = np.asarray(d0.common.evaluate_new_data(new).design_matrix, dtype=float)
                if N1.shape != N0.shape or not np.array_equal(N1, N0):
                    m.violation("identity", f"{term} is not coded like {cname} on new data", case=c, key="identity:categorical-new")
                r1, r0 = build(term + " ~ x").response, build(cname + " ~ x").response
                if list(r1.levels or []) != list(r0.levels or []) or not np.array_equal(np.asarray(r1.design_matrix, dtype=float), np.asarray(r0.design_matrix, dtype=float)):
                    m.violation("identity", f"response {term}: levels {r1.levels} vs {r0.levels} of {cname}", case=c, key="identity:categorical-response")
            except Exception as e:
                m.violation("identity", f"{term}: {type(e).__name__}: {e}", case=c, key="identity:categorical-raises")
    # ---- aliases ----------------------------------------------------------------------------
    r, o = s_lv[1], s_lv[-1]
    q = lambda v: "'" + v + "'"  # noqa: E731
    pairs = [(f"B(s, {q(r)})", f"binary(s, {q(r)})"), ("B(k)", "binary(k)"), ("standardize(x)", "scale(x)"),
             (f"T(s, {q(r)})", f"C(s, Treatment({q(r)}))"), (f"S(s, {q(o)})", f"C(s, Sum({q(o)}))"), ("T(s)", "C(s, Treatment)"),
             ("S(s)", "C(s, Sum)"), ("standardize(x):s", "scale(x):s"), (f"T(k, 2)", "C(k, Treatment(2))"),
             # full-rank positions (no intercept) and interactions
             (f"0 + T(s, {q(r)})", f"0 + C(s, Treatment({q(r)}))"), (f"0 + T(s, {q(o)})", f"0 + C(s, Treatment({q(o)}))"),
             (f"0 + S(s, {q(r)})", f"0 + C(s, Sum({q(r)}))"), (f"0 + x + T(s, {q(o)}):x", f"0 + x + C(s, Treatment({q(o)})):x"),
             (f"0 + T(k, 2)", "0 + C(k, Treatment(2))"), (f"0 + B(s, {q(r)}) + S(s)", f"0 + binary(s, {q(r)}) + C(s, Sum)")]
    new_ok = new.copy()
    for a, b in pairs:
        m.ev("aliases-synonymous")
        c = {**case, "text": f"{a} vs {b}"}
        try:
            da, db = build("y ~ " + a), build("y ~ " + b)
            A, B_ = np.asarray(da.common.design_matrix, dtype=float), np.asarray(db.common.design_matrix, dtype=float)
            if A.shape != B_.shape or not np.array_equal(A, B_):
                m.violation("aliases-synonymous", f"{a} and {b} differ at training", case=c, key="alias:training")
                continue
            formulae.config["EVAL_UNSEEN_CATEGORIES"] = "silent"
            try:
                NA = np.asarray(da.common.evaluate_new_data(new_ok).design_matrix, dtype=float)
                NB = np.asarray(db.common.evaluate_new_data(new_ok).design_matrix, dtype=float)
            finally:
                formulae.config["EVAL_UNSEEN_CATEGORIES"] = "error"
            if NA.shape != NB.shape or not np.array_equal(NA, NB):
                m.violation("aliases-synonymous", f"{a} and {b} differ on new data", case=c, key="alias:prediction")
        except Exception as e:
            m.violation("aliases-synonymous", f"{a} / {b}: {type(e).__name__}: {e}", case=c, key="alias:raises")
    for fn in ("p", "proportion"):
        for trials in ("tr", str(const)):
            m.ev("aliases-synonymous")
            if (fn, trials) in results and ("prop", trials) in results:
                (R1, t1), (R0, t0) = results[(fn, trials)], results[("prop", trials)]
                if not np.array_equal(R1, R0) or not np.array_equal(t1, t0):
                    m.violation("aliases-synonymous", f"{fn} and prop differ", case=case, key="alias:prop")


def run_shard(i, n, tier, seed, m):
    rng = random.Random(seed * 1000003 + i * 59 + 16)
    ncases = (320 if tier == "quick" else 8000) // n
    for k in range(ncases):
        case = {"seed": rng.randrange(2 ** 31)}
        m.case(case, canon=case["seed"], nontrivial=True)
        judge(case, m)


def replay(rec, m):
    judge({"seed": rec["case"]["seed"]}, m)
