"""Reach recording: which lines of /repo/formulae executed under a workload.

sys.monitoring LINE events with DISABLE after the first hit of every line (measured cost: a few
per cent).  Reported per anchor file of the property; it never drives the exit code.
"""
import os
import sys

TOOL = 3
_lines = {}
_on = False


def start(repo_pkg_dir):
    global _on
    if _on or not hasattr(sys, "monitoring"):
        return
    mon = sys.monitoring
    try:
        mon.use_tool_id(TOOL, "fmon-reach")
    except ValueError:
        return
    prefix = os.path.realpath(repo_pkg_dir) + os.sep

    def line(code, lineno):
        fn = code.co_filename
        if fn.startswith(prefix):
            _lines.setdefault(fn[len(prefix):], set()).add(lineno)
        return mon.DISABLE

    mon.register_callback(TOOL, mon.events.LINE, line)
    mon.set_events(TOOL, mon.events.LINE)
    _on = True


def dump():
    return {k: sorted(v) for k, v in _lines.items()}


def executable_lines(path):
    """Line numbers that carry code, from the compiled code objects of the file."""
    try:
        src = open(path, encoding="utf8").read()
        top = compile(src, path, "exec")
    except Exception:
        return set()
    out, todo = set(), [top]
    while todo:
        co = todo.pop()
        for _s, _e, ln in co.co_lines():
            if ln is not None:
                out.add(ln)
        todo.extend(c for c in co.co_consts if hasattr(c, "co_lines"))
    return out


def summarise(merged, anchor_files, repo):
    res = {}
    for f in anchor_files:
        rel = f[len("formulae/"):] if f.startswith("formulae/") else f
        ex = executable_lines(os.path.join(repo, f))
        got = set(merged.get(rel, [])) & ex if ex else set(merged.get(rel, []))
        res[f] = {"lines_reached": len(got), "executable_lines": len(ex)}
    return res
