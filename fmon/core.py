"""Monitor state, verdict discipline, sharded runner, evidence writer.

One process = one shard = one Monitor (plain Python objects, single thread).  Shards talk to
the driver only through their result files.
"""
import collections
import hashlib
import json
import os
import subprocess
import sys
import time

VERIF = os.path.dirname(os.path.dirname(os.path.abspath(__file__)))
REPO = os.environ.get("FORMULAE_REPO", "/repo")
WORK = os.path.join(VERIF, ".work")
DEPS = os.path.join(VERIF, ".deps")
PY = sys.executable

MAX_VIOLATIONS_KEPT = 400


def h64(obj):
    if not isinstance(obj, (bytes, str)):
        obj = json.dumps(obj, sort_keys=True, default=str)
    if isinstance(obj, str):
        obj = obj.encode("utf8", "surrogatepass")
    return hashlib.blake2b(obj, digest_size=8).hexdigest()


class Monitor:
    """Process-local recorder.  Contracts *record and return*; they never raise into the code
    under observation."""

    def __init__(self, prop="?"):
        self.prop = prop
        self.evals = collections.Counter()  # contract -> evaluations
        self.applicable = collections.Counter()  # contract -> evaluations whose precondition held
        self.nviol = collections.Counter()  # contract -> violations
        self.attach = collections.Counter()  # attach point -> intercepted calls
        self.classes = collections.Counter()  # structural classes seen
        self.notes = collections.Counter()  # observed-not-judged etc.
        self.violations = []
        self.samples = []
        self.cases = 0
        self.distinct = set()
        self.distinct_count_only = 0  # for exhaustive workloads partitioned by construction
        self.shadow = 0
        self.guard = 0  # re-entrancy depth: >0 means a shadow execution is running
        self.current_case = None
        self.foreign = False  # True while the repository's own tests drive the calls
        self.classifier = None
        self.per_class = collections.Counter()
        self.only = None  # set of contract names that count (None = all)

    # -- bookkeeping -------------------------------------------------------------------------
    def case(self, case, canon=None, nontrivial=True, sample_every=0):
        self.cases += 1
        self.current_case = case
        if nontrivial:
            self.distinct.add(h64(canon if canon is not None else case))
        if len(self.samples) < 6 or (sample_every and self.cases % sample_every == 0):
            if len(self.samples) < 24:
                self.samples.append(case)

    def ev(self, contract, applicable=True):
        if self.only is not None and contract not in self.only:
            return
        self.evals[contract] += 1
        if applicable:
            self.applicable[contract] += 1

    def cls(self, *names):
        for n in names:
            self.classes[n] += 1

    def note(self, name, n=1):
        self.notes[name] += n

    def violation(self, contract, detail, case=None, key=None, advisory=False):
        """Record a violation.  `key` is the structural class used for de-duplication and for
        matching known findings (never a hash of random values)."""
        if self.only is not None and contract not in self.only and not contract.startswith("monitor-error"):
            # cross-workload observation: another property's driver is running under THIS property's
            # monitors; what that driver's own contracts say is not this check's business
            self.notes["foreign-contract-ignored"] += 1
            return
        if advisory or (self.foreign and advisory is None):
            self.notes["advisory:" + contract] += 1
            return
        self.nviol[contract] += 1
        v = {
            "contract": contract,
            "key": key,
            "detail": str(detail)[:1500],
            "case": case if case is not None else self.current_case,
        }
        if self.classifier is not None:
            try:
                v["key"] = self.classifier(v)
            except Exception as e:  # pragma: no cover
                self.notes["classifier-error:" + type(e).__name__] += 1
        # keep a few witnesses per (contract, mechanism) class so that one frequent class
        # cannot crowd out the others
        cls = (contract, v["key"] if v["key"] is not None else v["detail"][:60])
        self.per_class[cls] += 1
        if self.per_class[cls] <= 4 and len(self.violations) < MAX_VIOLATIONS_KEPT:
            self.violations.append(v)

    # -- (de)serialisation ----------------------------------------------------------------------
    def dump(self):
        return {
            "prop": self.prop,
            "evals": dict(self.evals),
            "applicable": dict(self.applicable),
            "nviol": dict(self.nviol),
            "attach": dict(self.attach),
            "classes": dict(self.classes),
            "notes": dict(self.notes),
            "violations": self.violations,
            "samples": self.samples,
            "cases": self.cases,
            "distinct": sorted(self.distinct),
            "distinct_count_only": self.distinct_count_only,
            "shadow": self.shadow,
        }

    def merge(self, d):
        for name in ("evals", "applicable", "nviol", "attach", "classes", "notes"):
            getattr(self, name).update(d.get(name, {}))
        self.violations.extend(d.get("violations", []))
        for s in d.get("samples", []):
            if len(self.samples) < 12:
                self.samples.append(s)
        self.cases += d.get("cases", 0)
        self.distinct.update(d.get("distinct", []))
        self.distinct_count_only += d.get("distinct_count_only", 0)
        self.shadow += d.get("shadow", 0)


MON = Monitor()


def set_monitor(m):
    global MON
    MON = m
    return m


def mon():
    return MON


def guarded(fn):
    """A crash of the monitor/driver on one case must not take the shard down (the remaining cases
    would be lost) and must not be silent: it is recorded as a violation of its own class."""
    import functools
    import traceback

    import signal

    class CaseTimeout(BaseException):
        pass

    def on_alarm(signum, frame):
        raise CaseTimeout()

    limit = int(os.environ.get("FMON_CASE_TIMEOUT", "120"))

    @functools.wraps(fn)
    def wrapper(*a, **k):
        use_alarm = hasattr(signal, "SIGALRM") and limit > 0
        if use_alarm:
            old = signal.signal(signal.SIGALRM, on_alarm)
            signal.alarm(limit)
        try:
            return fn(*a, **k)
        except CaseTimeout:
            # a generous wall-clock watchdog per case: its firing is "inconclusive for this case", never a violation
            MON.notes["case-watchdog-fired"] += 1
            MON.guard = 0
            return None
        except Exception as e:
            MON.violation("monitor-error", "".join(traceback.format_exception(e))[-1500:],
                          key="monitor-error:" + type(e).__name__)
            MON.guard = 0
            return None
        finally:
            if use_alarm:
                signal.alarm(0)
                signal.signal(signal.SIGALRM, old)

    return wrapper


class shadow:
    """Context manager marking executions performed *by the monitor* (sibling runs of the real
    code).  Intrinsic contracts skip calls made under it."""

    def __enter__(self):
        MON.guard += 1
        MON.shadow += 1

    def __exit__(self, *a):
        MON.guard -= 1
        return False


# ---------------------------------------------------------------------------------------------
# known findings
# ---------------------------------------------------------------------------------------------
def load_known():
    known, fixed = {}, []
    path = os.path.join(VERIF, "known_findings.txt")
    if os.path.exists(path):
        for line in open(path, encoding="utf8"):
            line = line.strip()
            if not line or line.startswith("#"):
                continue
            if line.startswith("known:"):
                parts = line[len("known:") :].split()
                kv = dict(p.split("=", 1) for p in parts[:2] if "=" in p)
                known[(kv.get("property"), kv.get("key"))] = " ".join(parts[2:])
            elif line.startswith("fixed:"):
                fixed.append(line)
    return known, fixed


# ---------------------------------------------------------------------------------------------
# environment for children
# ---------------------------------------------------------------------------------------------
def ensure_deps():
    """icontract / deal live in /verif/.deps (git-ignored); re-create it offline if absent."""
    marker = os.path.join(DEPS, "icontract")
    if not os.path.isdir(marker):
        os.makedirs(DEPS, exist_ok=True)
        subprocess.run(
            [PY, "-m", "pip", "install", "-q", "--no-index", "--find-links",
             "/opt/veriftools/wheels", "--target", DEPS, "icontract", "deal"],
            check=False, stdout=subprocess.DEVNULL, stderr=subprocess.DEVNULL,
        )
    if DEPS not in sys.path:
        sys.path.insert(0, DEPS)


def child_env(extra=None):
    env = dict(os.environ)
    pp = [VERIF, DEPS]
    if env.get("PYTHONPATH"):
        pp.append(env["PYTHONPATH"])
    env["PYTHONPATH"] = os.pathsep.join(pp)
    env.setdefault("PYTHONHASHSEED", "0")
    env["FORMULAE_VERIF"] = "1"
    env["OMP_NUM_THREADS"] = "1"
    env["OPENBLAS_NUM_THREADS"] = "1"
    env["MKL_NUM_THREADS"] = "1"
    env["PYTHONWARNINGS"] = "ignore"
    if extra:
        env.update(extra)
    return env


def start_w0(prop, out):
    """The repository's own test-suite under the property's intrinsic contracts (workload W0)."""
    cmd = [PY, "-m", "pytest", os.path.join(REPO, "tests"), "-q", "--no-header", "-p", "no:cacheprovider",
           "-p", "fmon.pytest_plugin", "--timeout=600"]
    log = open(out + ".log", "w")
    env = child_env({"FMON_PROPS": prop, "FMON_OUT": out})
    env.pop("PYTHONWARNINGS", None)
    return subprocess.Popen(cmd, env=env, stdout=log, stderr=subprocess.STDOUT, cwd=REPO), log


def run_shards(prop, tier, seed, nshards, timeout, extra_args=(), w0=False):
    """Run `check <prop> --shard i/n` in nshards subprocesses (never multiprocessing.Pool).
    Returns (list of result dicts, list of lost shard descriptions)."""
    os.makedirs(WORK, exist_ok=True)
    procs = []
    for i in range(nshards):
        out = os.path.join(WORK, f"{prop}-{tier}-{os.getpid()}-{i}.json")
        if os.path.exists(out):
            os.remove(out)
        cmd = [PY, os.path.join(VERIF, "check"), prop, "--tier", tier, "--seed", str(seed),
               "--shard", f"{i}/{nshards}", "--out", out, *extra_args]
        log = open(out + ".log", "w")
        p = subprocess.Popen(cmd, env=child_env(), stdout=log, stderr=subprocess.STDOUT, cwd=VERIF)
        procs.append((i, p, out, log))
    if w0:
        out = os.path.join(WORK, f"{prop}-{tier}-{os.getpid()}-w0.json")
        if os.path.exists(out):
            os.remove(out)
        p, log = start_w0(prop, out)
        procs.append(("w0", p, out, log))
    results, lost = [], []
    deadline = time.time() + timeout
    for i, p, out, log in procs:
        try:
            p.wait(timeout=max(1.0, deadline - time.time()))
        except subprocess.TimeoutExpired:
            p.kill()
            p.wait()
            lost.append(f"shard {i}: watchdog timeout after {timeout}s")
        log.close()
        if os.path.exists(out):
            try:
                results.append(json.load(open(out)))
            except Exception as e:  # pragma: no cover
                lost.append(f"shard {i}: unreadable result ({e})")
        elif not any(l.startswith(f"shard {i}:") for l in lost):
            tail = ""
            try:
                tail = open(out + ".log").read()[-600:]
            except Exception:
                pass
            lost.append(f"shard {i}: exit {p.returncode}, no result: {tail}")
        for f in (out, out + ".log"):
            if os.path.exists(f):
                os.remove(f)
    return results, lost


# ---------------------------------------------------------------------------------------------
# verdict + evidence
# ---------------------------------------------------------------------------------------------
def jsonable(x):
    try:
        json.dumps(x)
        return x
    except TypeError:
        return json.loads(json.dumps(x, default=str))


def finish(prop, tier, seed, monitor, lost, t0, spec):
    """Classify, print verdict lines, write evidence, return exit code.

    spec: dict with keys level, rule, deciding (list of contracts that must have been applicable),
          classify (fn(violation) -> key or None), describe (key -> text), assumptions, exhaustive,
          extra (dict merged into coverage)."""
    known, _fixed = load_known()
    classify = spec.get("classify") or (lambda v: v.get("key"))
    new_by_class, known_met = {}, collections.Counter()
    monitor_errors = []
    for v in monitor.violations:
        if v["contract"] == "monitor-error":
            # the monitor itself failed on this case (e.g. an attribute it reads was renamed): it could
            # not observe, which is "inconclusive", never a claim that the property is violated
            monitor_errors.append(v)
            continue
        key = classify(v)
        v["key"] = key
        if key is not None and (prop, key) in known:
            known_met[key] += 1
            continue
        cls = (v["contract"], key or v["detail"][:80])
        cur = new_by_class.get(cls)
        if cur is None or len(json.dumps(v["case"], default=str)) < len(
            json.dumps(cur["case"], default=str)
        ):
            new_by_class[cls] = v
    # violations beyond the kept cap still count
    total_viol = sum(n for c, n in monitor.nviol.items() if c != "monitor-error")
    lines = []
    for key, n in sorted(known_met.items()):
        lines.append(f"KNOWN-FINDING: property={prop} key={key} met={n} {known[(prop, key)]}")
    os.makedirs(os.path.join(VERIF, "replay"), exist_ok=True)
    nnew = 0
    for cls, v in sorted(new_by_class.items(), key=lambda kv: str(kv[0]))[:25]:
        nnew += 1
        name = f"{prop}-{h64([v['contract'], v['key'], v['case']])}.json"
        path = os.path.join(VERIF, "replay", name)
        with open(path, "w") as f:
            json.dump({"property": prop, "seed": seed, "tier": tier, **jsonable(v)}, f, indent=1)
        lines.append(f"VIOLATION property={prop} replay={path}")
        lines.append(f"  contract={v['contract']} key={v['key']} detail={v['detail'][:300]}")
    deciding = spec.get("deciding", [])
    never = [c for c in deciding if monitor.applicable.get(c, 0) == 0]
    inconclusive = []
    if lost:
        inconclusive.append("lost shards: " + "; ".join(lost)[:500])
    if monitor_errors:
        kinds = sorted({str(v.get("key")) for v in monitor_errors})
        first = monitor_errors[0]
        name = f"{prop}-monitor-error-{h64([first['key'], first['case']])}.json"
        with open(os.path.join(VERIF, "replay", name), "w") as f:
            json.dump({"property": prop, "seed": seed, "tier": tier, **jsonable(first)}, f, indent=1)
        inconclusive.append(f"the monitor failed on {monitor.nviol.get('monitor-error', len(monitor_errors))} cases ({', '.join(kinds)[:200]}); "
                            f"first witness replay/{name}: " + first["detail"].strip().splitlines()[-1][:200])
    if never:
        inconclusive.append("deciding contracts never applicable: " + ",".join(never))
    distinct = len(monitor.distinct) + monitor.distinct_count_only
    if distinct < 2:
        inconclusive.append("fewer than 2 distinct non-trivial cases")
    if nnew:
        code = 1
    elif inconclusive:
        code = 2
        for r in inconclusive:
            lines.append(f"INCONCLUSIVE property={prop} reason={r}")
    else:
        code = 0
    coverage = {
        "evaluations": monitor.cases,
        "distinct_nontrivial": distinct,
        "rule": spec.get("rule", ""),
        "samples": jsonable(monitor.samples[:10]) or ["<none>"],
        "exhaustive": bool(spec.get("exhaustive", False)),
        "contracts": {
            c: {"evaluations": monitor.evals[c], "applicable": monitor.applicable.get(c, 0),
                "violations": monitor.nviol.get(c, 0)}
            for c in sorted(monitor.evals)
        },
        "attach_points_intercepted": dict(sorted(monitor.attach.items())),
        "shadow_executions": monitor.shadow,
        "structural_classes": dict(sorted(monitor.classes.items(), key=lambda kv: -kv[1])[:80]),
        "observed_not_judged": dict(sorted(monitor.notes.items())),
        "known_findings_met": dict(known_met),
        "verdict": {0: "held on what was observed", 1: "violated", 2: "inconclusive"}[code],
        "inconclusive_reasons": inconclusive,
    }
    coverage.update(jsonable(spec.get("extra", {})))
    evidence = {
        "property_id": prop,
        "tier": tier,
        "seed": int(seed),
        "level": spec.get("level", "exploration"),
        "coverage": coverage,
        "assumptions": spec.get("assumptions", []),
        "wall_s": round(time.time() - t0, 2),
        "violations": int(total_viol - sum(known_met.values())) if nnew else 0,
    }
    # evidence committed under /verif/evidence must come from runs against /repo itself: runs against a
    # patched scratch copy (mutation / equivalence experiments) write theirs to the scratch area
    evdir = os.path.join(VERIF, "evidence")
    if os.environ.get("FORMULAE_REPO") and os.path.realpath(os.environ["FORMULAE_REPO"]) != os.path.realpath("/repo"):
        evdir = os.path.join(WORK, "evidence-scratch")
    os.makedirs(evdir, exist_ok=True)
    with open(os.path.join(evdir, f"{prop}.json"), "w") as f:
        json.dump(evidence, f, indent=1, sort_keys=True)
        f.write("\n")
    for l in lines:
        print(l)
    print(
        f"{prop} tier={tier} seed={seed}: cases={monitor.cases} distinct={distinct} "
        f"contract-evals={sum(monitor.evals.values())} shadow={monitor.shadow} "
        f"violations(new classes)={nnew} known-met={sum(known_met.values())} "
        f"wall={evidence['wall_s']}s -> exit {code}"
    )
    return code


def _foreign(fn, m, name):
    """A foreign driver that crashes (its own oracle, on its own terms) is not this property's business."""
    def run(*a, **k):
        try:
            return fn(*a, **k)
        except Exception as e:
            m.notes["foreign-driver-error:" + name + ":" + type(e).__name__] += 1
            m.guard = 0
            return None
    return run


def cross_workloads(m, own_contracts, modules, tier, seed, i, n, per_module):
    """Run slices of OTHER properties' drivers while this property's intrinsic monitors are attached:
    more objects, states and call shapes for the same invariants.  Only `own_contracts` count."""
    import importlib
    import random

    m.only = set(own_contracts)
    before = m.cases
    try:
        for name in modules:
            mod = importlib.import_module("props." + name)
            rng = random.Random(seed * 7919 + i * 31 + hash(name) % 1000)
            k = max(1, per_module // n)
            try:
                if name in ("C04", "C06", "C08", "C09", "C10", "C15", "C17"):
                    from workloads import designs as D

                    for j in range(k):
                        case = D.random_case(rng, profile="stateful" if j % 2 else "plain", hostile=(j % 4 == 0),
                                             group_p=0.6, min_rows=6, with_refs=(j % 3 == 0))
                        if name == "C09":
                            case["policy"], case["pattern"] = rng.choice(["drop", "pass"]), rng.choice(["one-cell", "several", "none"])
                        if name == "C15":
                            case["single_level"], case["unobserved"] = j % 5 == 0, j % 3 == 0
                        m.case({"cross": name, **case}, canon=["cross", name, D.formula_text(case), case["frame"]["seed"]])
                        _foreign(mod.judge, m, name)(case, m)
                elif name == "C05":
                    for kk, case in list(mod.gen_cases(tier, seed, i, n))[: k]:
                        case = mod.finish(case, kk, seed)
                        m.case({"cross": name, **case}, canon=["cross", name, mod.build_text(case), case["frame_seed"]])
                        _foreign(mod.judge, m, name)(case, m)
                elif name == "C16":
                    for j in range(max(1, k // 8)):
                        case = {"seed": rng.randrange(2 ** 31)}
                        m.case({"cross": name, **case}, canon=["cross", name, case["seed"]])
                        _foreign(mod.judge, m, name)(case, m)
            except Exception as e:  # a foreign driver must never break this check
                m.notes["cross-workload-error:" + name + ":" + type(e).__name__] += 1
    finally:
        m.only = None
    m.notes["cross-workload-cases"] += m.cases - before
