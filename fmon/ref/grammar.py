"""Reference grammar for the formula language: own tokenizer + table-driven precedence climbing.

Written from the documented precedence (~ lowest, then |, comparisons, + -, * /, :, **, unary
sign, call/atom highest; binary operators left-associative; implicit `1 +` after `~` or at the
start).  Deliberately permissive where the documentation is silent (`|`, comparisons and `~`
may appear unparenthesised wherever an expression may), so that "reference rejects" means
"cannot be a sentence under any reading": left-over tokens, unbalanced brackets, second `~`,
unterminated quotes, tokens with no grammatical role.

AST = nested tuples
  ('bin', op, L, R) ('un', op, R) ('call', CALLEE, [args]) ('kw', name, V)
  ('var', name, level|None) ('bq', lexeme) ('lit', value, lexeme|None)
Every node is returned together with its token span (i, j) by `parse_spans`.
"""
import random

WS = " \t\r\n"
TWO = {"**", "//", "==", "!=", "<=", ">="}
ONE = set("()[]{},+-/*!=<>%~:|.")
CMP = {"==", "!=", "<=", "<", ">=", ">"}
# binding power of binary operators (higher binds tighter); all left-associative
BP = {"~": 1, "|": 2, "==": 3, "!=": 3, "<=": 3, "<": 3, ">=": 3, ">": 3, "+": 4, "-": 4,
      "*": 5, "/": 5, ":": 6, "**": 7}
UNARY_BP = 8


class NotSentence(Exception):
    pass


class Tok:
    __slots__ = ("kind", "lex", "value", "start", "end", "inserted")

    def __init__(self, kind, lex, value=None, start=-1, end=-1, inserted=False):
        self.kind, self.lex, self.value = kind, lex, value
        self.start, self.end, self.inserted = start, end, inserted

    def __repr__(self):
        return f"{self.kind}:{self.lex}"


def tokenize(s, add_intercept=True):
    """Longest-match tokenizer.  Raises NotSentence for characters outside the alphabet,
    unterminated strings / backquotes, empty input, and more than one `~`."""
    if len(s) == 0:
        raise NotSentence("empty")
    toks = []
    i, n = 0, len(s)
    while i < n:
        c = s[i]
        if c in WS:
            i += 1
            continue
        if c in "'\"":
            j = i + 1
            # the library closes a string at the next quote character of either kind
            while j < n and s[j] not in "'\"":
                j += 1
            if j >= n:
                raise NotSentence("unterminated string")
            toks.append(Tok("STR", s[i : j + 1], s[i + 1 : j], i, j + 1))
            i = j + 1
        elif c == "`":
            j = s.find("`", i + 1)
            if j < 0:
                raise NotSentence("unterminated backquote")
            toks.append(Tok("BQ", s[i : j + 1], s[i + 1 : j], i, j + 1))
            i = j + 1
        elif c.isdigit() or (c == "." and i + 1 < n and s[i + 1].isdigit()):
            j = i
            while j < n and s[j].isdigit():
                j += 1
            isfloat = False
            if j + 1 < n and s[j] == "." and s[j + 1].isdigit() or (c == "." and j == i):
                isfloat = True
                j += 1
                while j < n and s[j].isdigit():
                    j += 1
            lex = s[i:j]
            try:
                val = float(lex) if isfloat else int(lex)
            except ValueError:
                raise NotSentence("bad number")
            toks.append(Tok("NUM", lex, val, i, j))
            i = j
        elif c.isalpha():
            j = i + 1
            while j < n and (s[j].isalnum() or s[j] in "._"):
                j += 1
            lex = s[i:j]
            if lex in ("True", "False", "None"):
                toks.append(Tok("PY", lex, {"True": True, "False": False, "None": None}[lex], i, j))
            else:
                toks.append(Tok("ID", lex, None, i, j))
            i = j
        elif s[i : i + 2] in TWO:
            toks.append(Tok("OP", s[i : i + 2], None, i, i + 2))
            i += 2
        elif c in ONE:
            toks.append(Tok("OP", c, None, i, i + 1))
            i += 1
        else:
            raise NotSentence(f"unexpected character {c!r}")
    tildes = [k for k, t in enumerate(toks) if t.kind == "OP" and t.lex == "~"]
    if len(tildes) > 1:
        raise NotSentence("more than one ~")
    if add_intercept:
        ins = [Tok("NUM", "1", 1, inserted=True), Tok("OP", "+", inserted=True)]
        if not tildes:
            toks = ins + toks
        else:
            k = tildes[0] + 1
            toks = toks[:k] + ins + toks[k:]
    return toks


class _P:
    def __init__(self, toks, call_mode="formula"):
        self.t = toks
        self.i = 0
        self.call_mode = call_mode  # how unary sign and ** relate inside call arguments
        self.spans = []  # (node, i, j, role)
        self.in_call = 0

    def peek(self):
        return self.t[self.i] if self.i < len(self.t) else None

    def isop(self, lex):
        t = self.peek()
        return t is not None and t.kind == "OP" and t.lex == lex

    def expect(self, lex):
        if not self.isop(lex):
            raise NotSentence(f"expected {lex!r} at token {self.i}")
        self.i += 1

    def node(self, nd, i, role="operand"):
        self.spans.append((nd, i, self.i, role))
        return nd

    # precedence climbing
    def expr(self, min_bp=1):
        start = self.i
        left = self.operand()
        while True:
            t = self.peek()
            if t is None or t.kind != "OP" or t.lex not in BP:
                break
            bp = BP[t.lex]
            if bp < min_bp:
                break
            if self.in_call and self.call_mode == "python" and t.lex == "**":
                # Python: ** is right associative and its right operand may carry a sign
                self.i += 1
                right = self.expr(bp) if not self._sign_ahead() else self.operand()
                left = self.node(("bin", t.lex, left, right), start)
                continue
            self.i += 1
            right = self.expr(bp + 1)  # left associative
            left = self.node(("bin", t.lex, left, right), start)
        return left

    def _sign_ahead(self):
        t = self.peek()
        return t is not None and t.kind == "OP" and t.lex in "+-"

    def operand(self):
        start = self.i
        t = self.peek()
        if t is None:
            raise NotSentence("unexpected end")
        if t.kind == "OP" and t.lex in ("+", "-"):
            self.i += 1
            if self.in_call and self.call_mode == "python":
                # -x**2 is -(x**2): the operand of a sign extends over a ** chain
                inner = self.expr(BP["**"])
            else:
                inner = self.operand()
            return self.node(("un", t.lex, inner), start)
        return self.postfix()

    def postfix(self):
        start = self.i
        nd = self.primary()
        while self.isop("("):
            # a callee must be a plain (possibly dotted) identifier
            if not (nd[0] == "var" and nd[2] is None):
                raise NotSentence("call on something that is not a name")
            self.i += 1
            self.in_call += 1
            args = []
            if not self.isop(")"):
                while True:
                    args.append(self.argument())
                    if self.isop(","):
                        self.i += 1
                        continue
                    break
            self.expect(")")
            self.in_call -= 1
            nd = self.node(("call", nd, args), start)
        return nd

    def argument(self):
        start = self.i
        t = self.peek()
        nxt = self.t[self.i + 1] if self.i + 1 < len(self.t) else None
        if t is not None and t.kind == "ID" and nxt is not None and nxt.kind == "OP" and nxt.lex == "=":
            self.i += 2
            v = self.expr(2)
            return self.node(("kw", t.lex, v), start, role="kw")
        return self.expr(1)

    def primary(self):
        start = self.i
        t = self.peek()
        if t is None:
            raise NotSentence("unexpected end")
        if t.kind == "ID":
            self.i += 1
            if self.isop("["):
                self.i += 1
                lv = self.peek()
                if lv is None or lv.kind not in ("ID", "STR"):
                    raise NotSentence("subset notation needs a name or a string")
                self.i += 1
                self.expect("]")
                return self.node(("var", t.lex, lv.lex if lv.kind == "ID" else lv.value), start)
            return self.node(("var", t.lex, None), start, role="name")
        if t.kind == "NUM":
            self.i += 1
            return self.node(("lit", t.value, None), start)
        if t.kind == "PY":
            self.i += 1
            return self.node(("lit", t.value, None), start)
        if t.kind == "STR":
            self.i += 1
            return self.node(("lit", t.value, t.lex), start)
        if t.kind == "BQ":
            self.i += 1
            return self.node(("bq", t.lex), start)
        if t.kind == "OP" and t.lex == "(":
            self.i += 1
            nd = self.expr(1)  # grouping keeps the call context
            self.expect(")")
            self.spans.append((nd, start, self.i, "group"))
            return nd
        if t.kind == "OP" and t.lex == "{":
            self.i += 1
            self.in_call += 1
            nd = self.argument()  # {e} is I(e), so {k = v} is I(k=v) like any other argument
            self.expect("}")
            self.in_call -= 1
            return self.node(("call", ("var", "I", None), [nd]), start)
        raise NotSentence(f"no rule for {t.lex!r}")


def parse_tokens(toks, call_mode="formula", want_spans=False):
    p = _P(toks, call_mode)
    nd = p.expr(1)
    if p.i != len(toks):
        raise NotSentence(f"left-over tokens from index {p.i}: {toks[p.i:][:4]}")
    return (nd, p.spans) if want_spans else nd


def parse(s, add_intercept=True, call_mode="formula"):
    return parse_tokens(tokenize(s, add_intercept), call_mode)


def is_sentence(s):
    try:
        parse(s)
        return True
    except NotSentence:
        return False
    except RecursionError:
        return None  # undecided


# ---------------------------------------------------------------------------------------------
# unparsing
# ---------------------------------------------------------------------------------------------
def lit_text(nd):
    _, value, lex = nd
    if lex is not None:
        return lex
    return repr(value) if not isinstance(value, float) else repr(value)


def fp(nd):
    """Fully parenthesised text of an AST (every binary and unary node wrapped)."""
    k = nd[0]
    if k == "bin":
        return f"({fp(nd[2])} {nd[1]} {fp(nd[3])})"
    if k == "un":
        return f"({nd[1]}{fp(nd[2])})"
    if k == "call":
        callee = nd[1][1]
        return f"{callee}({', '.join(fp(a) for a in nd[2])})"
    if k == "kw":
        return f"{nd[1]}={fp(nd[2])}"
    if k == "var":
        if nd[2] is None:
            return nd[1]
        lv = nd[2]
        plain = isinstance(lv, str) and lv != "" and lv[0].isalpha() and all(c.isalnum() or c in "._" for c in lv) \
            and lv not in ("True", "False", "None")
        return f"{nd[1]}[{lv}]" if plain else f"{nd[1]}['{lv}']"
    if k == "bq":
        return nd[1]
    if k == "lit":
        return lit_text(nd)
    raise ValueError(k)


def node_bp(nd):
    if nd[0] == "bin":
        return BP[nd[1]]
    if nd[0] == "un":
        return UNARY_BP
    return 99


def minimal(nd, rng=None, extra=0.0):
    """Text with only the parentheses the grammar needs (formula precedence), optionally adding
    redundant ones around operands with probability `extra`."""

    def wrap(txt, force=False):
        if force or (rng is not None and rng.random() < extra):
            return "(" + txt + ")"
        return txt

    k = nd[0]
    if k == "bin":
        bp = BP[nd[1]]
        l, r = nd[2], nd[3]
        lt = wrap(minimal(l, rng, extra), node_bp(l) < bp)
        rt = wrap(minimal(r, rng, extra), node_bp(r) <= bp)
        return f"{lt} {nd[1]} {rt}"
    if k == "un":
        inner = nd[2]
        return nd[1] + wrap(minimal(inner, rng, extra), node_bp(inner) < UNARY_BP)
    if k == "call":
        callee = nd[1][1]
        if callee == "I" and rng is not None and rng.random() < 0.15 and len(nd[2]) == 1 and nd[2][0][0] != "kw":
            return "{" + minimal(nd[2][0], rng, extra) + "}"
        return f"{callee}({', '.join(minimal(a, rng, extra) for a in nd[2])})"
    if k == "kw":
        v = nd[2]
        return f"{nd[1]}={wrap(minimal(v, rng, extra), node_bp(v) < 4)}"
    return fp(nd)


def respace(s, rng, toks=None):
    """Random inter-token whitespace; juxtaposition only where it provably does not merge or
    split tokens (re-tokenised and compared)."""
    toks = toks if toks is not None else tokenize(s, add_intercept=False)
    choices = ["", "", " ", " ", "  ", "\t", "\n", "\r", " \t "]
    for _ in range(6):
        parts = [rng.choice(choices[2:])] if rng.random() < 0.3 else [""]
        for t in toks:
            parts.append(t.lex)
            parts.append(rng.choice(choices))
        txt = "".join(parts)
        try:
            again = tokenize(txt, add_intercept=False)
        except NotSentence:
            continue
        if [t.lex for t in again] == [t.lex for t in toks]:
            return txt
    return " ".join(t.lex for t in toks)


def reparen(s, rng, p=0.35, call_mode="formula"):
    """Wrap random operand sub-expressions of the *written* text in redundant parentheses.
    Only AST nodes whose token span contains no inserted token are eligible; callees, keyword
    names and the inside of y[...] never are."""
    toks = tokenize(s, add_intercept=True)
    nd, spans = parse_tokens(toks, call_mode=call_mode, want_spans=True)
    callee_ids = set()

    def mark(n):
        if n[0] == "call":
            callee_ids.add(id(n[1]))
            for a in n[2]:
                mark(a)
        elif n[0] == "bin":
            mark(n[2]); mark(n[3])
        elif n[0] in ("un", "kw"):
            mark(n[2])

    mark(nd)
    opens, closes = {}, {}
    for n, i, j, role in spans:
        if role in ("kw", "group") or id(n) in callee_ids:
            continue
        if n[0] == "bin" and n[1] == "~":
            continue
        if any(t.inserted for t in toks[i:j]):
            continue
        if rng.random() < p:
            opens[i] = opens.get(i, 0) + 1
            closes[j - 1] = closes.get(j - 1, 0) + 1
    out = []
    for k, t in enumerate(toks):
        if t.inserted:
            continue
        out.append("(" * opens.get(k, 0) + t.lex + ")" * closes.get(k, 0))
    return " ".join(out)


def used_names(nd, acc=None):
    """Names in expression position (never callees or keyword names)."""
    acc = set() if acc is None else acc
    k = nd[0]
    if k == "bin":
        used_names(nd[2], acc); used_names(nd[3], acc)
    elif k in ("un", "kw"):
        used_names(nd[2], acc)
    elif k == "call":
        for a in nd[2]:
            used_names(a, acc)
    elif k == "var":
        acc.add(nd[1])
    elif k == "bq":
        acc.add(nd[1][1:-1])
    return acc
