"""label -> expected column dictionaries built from the data frame alone.

The oracle never parses a label: it enumerates the candidate labels it expects (products over the
factors of a term, group cell slowest for group-specific terms) and looks the actual labels up.
"""
import itertools

import numpy as np
import pandas as pd


class Unknown(Exception):
    """A component this oracle has no independent definition for: the term is not judged."""


def frame_levels(series):
    """Level order promised by the documentation: declared order for ordered categoricals,
    sorted observed values otherwise."""
    if isinstance(series.dtype, pd.CategoricalDtype) and series.dtype.ordered:
        return list(series.dtype.categories)
    vals = [v for v in pd.unique(series) if not (isinstance(v, float) and np.isnan(v))]
    return sorted(vals)


def pieces_for_component(comp, atoms, train, df, meta):
    """List of (label, column) candidates of one factor, in level order."""
    name = str(comp.name)
    at = atoms.get(name) if atoms else None
    cls = type(comp).__name__
    if at is not None:
        if at.kind == "num":
            if at.fn is None:
                raise Unknown("multi-column transform " + name)
            v = at.values(train, df)
            if v.ndim == 2 and v.shape[1] > 1:
                return [(f"{name}[{i}]", v[:, i]) for i in range(v.shape[1])]
            return [(name, v.reshape(len(df)))]
        if at.coding != "treatment":
            raise Unknown("non-treatment coding " + name)
        rows = np.asarray(at.rowlevels(df), dtype=object)
        return [(f"{name}[{lv}]", (rows == lv).astype(float)) for lv in at.levels(meta)]
    if cls == "Variable" and getattr(comp, "reference", None) is None and name in df.columns:
        s = df[name]
        if comp.kind == "numeric":
            return [(name, s.to_numpy(dtype=float))]
        if comp.kind == "categoric":
            lv = frame_levels(train[name])
            rows = np.asarray(s.tolist(), dtype=object)
            return [(f"{name}[{l}]", (rows == l).astype(float)) for l in lv]
    raise Unknown(f"{cls} {name}")


def product_candidates(piece_lists, sep=":"):
    """Ordered list of (index tuple, label, column)."""
    out = []
    for idx in itertools.product(*[range(len(p)) for p in piece_lists]):
        label = sep.join(piece_lists[j][i][0] for j, i in enumerate(idx))
        col = np.ones_like(piece_lists[0][0][1], dtype=float)
        for j, i in enumerate(idx):
            col = col * piece_lists[j][i][1]
        out.append((idx, label, col))
    return out


def check_block(labels, block, candidates, what):
    """labels / block of one term against its candidates.  Returns list of problems; raises
    Unknown if candidate labels collide (ambiguous case, skipped and counted)."""
    by_label = {}
    for idx, label, col in candidates:
        if label in by_label:
            raise Unknown("ambiguous candidate label " + label)
        by_label[label] = (idx, col)
    problems = []
    block = np.asarray(block, dtype=float)
    if block.ndim == 1:
        block = block[:, None]
    if labels is None:
        return [f"no-labels|{what}: no labels"]
    if len(labels) != block.shape[1]:
        problems.append(f"label-count|{what}: {len(labels)} labels for {block.shape[1]} columns")
        return problems
    prev = None
    for j, lab in enumerate(labels):
        if lab not in by_label:
            problems.append(f"unknown-label|{what}: label {lab!r} names no level/variable combination of the data")
            continue
        idx, col = by_label[lab]
        got = block[:, j]
        if not np.allclose(got, col, rtol=1e-10, atol=1e-12, equal_nan=True):
            bad = int(np.argmax(~np.isclose(got, col, rtol=1e-10, atol=1e-12, equal_nan=True)))
            problems.append(f"label-column-mismatch|{what}: column {j} labelled {lab!r} differs from what the label says "
                            f"(row {bad}: {got[bad]!r} vs {col[bad]!r})")
        if prev is not None and not idx > prev:
            problems.append(f"label-order|{what}: label order {labels} is not the product order (first factor slowest)")
        prev = idx
    return problems


def term_pieces(term, atoms, train, df, meta):
    return [pieces_for_component(c, atoms, train, df, meta) for c in term.components]


def check_common(matrix, atoms, train, df, meta, note):
    """All problems of a CommonEffectsMatrix (training matrix or new-data result)."""
    problems = []
    judged = 0
    frame_labels = list(matrix.as_dataframe().columns)
    pos = 0
    for name, term in matrix.terms.items():
        sl = matrix.slices[name]
        block = matrix.design_matrix[:, sl]
        width = block.shape[1]
        labels = term.labels if type(term).__name__ != "Intercept" else ["Intercept"]
        if list(frame_labels[sl.start : sl.stop]) != list(labels):
            problems.append(f"dataframe-labels|{name}: as_dataframe() columns {frame_labels[sl.start:sl.stop]} != term labels {labels}")
        if type(term).__name__ == "Intercept":
            if not (width == 1 and np.all(block == 1)):
                problems.append("intercept-column|Intercept column is not all ones")
            judged += 1
            continue
        try:
            cands = product_candidates(term_pieces(term, atoms, train, df, meta))
            problems += check_block(labels, block, cands, name)
            judged += 1
        except Unknown as e:
            note("not-judged:" + str(e).split(" ")[0])
    return problems, judged


def check_group(matrix, atoms, train, df, meta, note, allow_new=False):
    problems = []
    judged = 0
    for name, term in matrix.terms.items():
        sl = matrix.slices[name]
        block = np.asarray(matrix.design_matrix[:, sl], dtype=float)
        try:
            if type(term.expr).__name__ == "Intercept":
                eff = [((0,), "1", np.ones(len(df)))]
            else:
                eff = product_candidates(term_pieces(term.expr, atoms, train, df, meta))
            cells = product_candidates(term_pieces(term.factor, atoms, train, df, meta))
        except Unknown as e:
            note("not-judged:" + str(e).split(" ")[0])
            continue
        cands = []
        for ci, clabel, ccol in cells:
            for ei, elabel, ecol in eff:
                cands.append((ci + ei, f"{elabel}|{clabel}", ecol * ccol))
        labels = list(term.labels)
        if allow_new and block.shape[1] != len(labels):
            # widened by an unseen group (C10 owns the extra block): judge the leading columns
            if block.shape[1] < len(labels):
                problems.append(f"label-count|{name}: fewer columns than labels")
                continue
            block = block[:, : len(labels)]
        try:
            problems += check_block(labels, block, cands, name)
            judged += 1
        except Unknown as e:
            note("not-judged:" + str(e).split(" ")[0])
            continue
        # group cell slowest, effect fastest, and the number of labels is cells x effect columns
        if len(labels) % max(1, len(cells)) != 0 and len(labels) == block.shape[1]:
            problems.append(f"label-count|{name}: {len(labels)} columns is not a multiple of {len(cells)} group cells")
    return problems, judged
