"""The full-rank coding rule for a list of terms (the published patsy redundancy analysis),
re-implemented from its description: walk the terms lower-order first inside each group of
terms that share a numeric part; every term claims the not-yet-claimed subsets of its categorical
factors; claimed subsets are merged (a subset absorbs a subset one factor smaller, which turns
the extra factor into a full-rank coded one).  Result per term: list of codings, each a dict
factor -> True (all indicators) | False (reduced).  More than one coding = the term needs helper
(lower-order) terms.
"""
import itertools


def _subsets(factors):
    out = []
    for r in range(len(factors) + 1):
        out.extend(frozenset(c) for c in itertools.combinations(factors, r))
    return out


def _simplify(subterms):
    """subterms: list of frozenset of (factor, full?)."""
    subterms = list(subterms)
    changed = True
    while changed:
        changed = False
        for i, short in enumerate(subterms):
            for j in range(i + 1, len(subterms)):
                long = subterms[j]
                if len(long) - len(short) == 1 and short <= long:
                    (extra,) = long - short
                    if extra[1]:
                        continue
                    subterms[j] = frozenset(set(short) | {(extra[0], True)})
                    subterms.pop(i)
                    changed = True
                    break
            if changed:
                break
    return subterms


def codings(terms, intercept):
    """terms: list of (categorical factor names tuple, numeric factor names tuple).
    Returns list (aligned with terms) of lists of dicts factor -> full?"""
    result = [None] * len(terms)
    groups = {}
    for idx, (cat, num) in enumerate(terms):
        groups.setdefault(frozenset(num), []).append(idx)
    for numset, members in groups.items():
        used = set()
        if not numset and intercept:
            used.add(frozenset())
        for idx in sorted(members, key=lambda i: len(terms[i][0])):
            cat = terms[idx][0]
            new = [s for s in sorted(_subsets(cat), key=len) if s not in used]
            used.update(new)
            subs = _simplify([frozenset((f, False) for f in s) for s in new])
            result[idx] = [dict(s) for s in subs]
    return result


def simplified_rule_coincides(terms, intercept):
    """True iff 'every categorical factor of every effect term reduced when the (group) intercept
    is present, full otherwise, and no helper terms' gives the same coding as the full rule."""
    want_full = not intercept
    for (cat, num), cods in zip(terms, codings(terms, intercept)):
        if not cat:
            continue
        if len(cods) != 1:
            return False
        c = cods[0]
        if set(c) != set(cat) or any(c[f] != want_full for f in cat):
            return False
    return True
