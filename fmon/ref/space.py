"""Model space of a list of terms: every categorical factor coded by ALL its level indicators,
times the numeric factors, plus the constant.  Rank / span by SVD on column-normalised matrices."""
import numpy as np


def _svd(m, compute_uv=True):
    """numpy's divide-and-conquer SVD occasionally fails to converge on large rank-deficient 0/1
    matrices; fall back to the slower QR-iteration driver."""
    try:
        return np.linalg.svd(m, full_matrices=False) if compute_uv else np.linalg.svd(m, compute_uv=False)
    except np.linalg.LinAlgError:
        import scipy.linalg

        return scipy.linalg.svd(m, full_matrices=False, compute_uv=compute_uv, lapack_driver="gesvd")


def indicators(values, levels):
    values = np.asarray(values, dtype=object)
    return np.column_stack([(values == lv).astype(float) for lv in levels]) if len(levels) else np.zeros((len(values), 0))


def rowkron(a, b):
    """Row-wise Kronecker (Khatri-Rao by rows): first operand slowest."""
    a = a if a.ndim == 2 else a[:, None]
    b = b if b.ndim == 2 else b[:, None]
    return (a[:, :, None] * b[:, None, :]).reshape(a.shape[0], a.shape[1] * b.shape[1])


def term_block(factor_matrices, n):
    out = np.ones((n, 1))
    for m in factor_matrices:
        out = rowkron(out, np.asarray(m, dtype=float))
    return out


def model_space(n, terms, intercept):
    """terms: list of lists of (n, k) matrices (one per factor).  Returns the stacked matrix."""
    blocks = [np.ones((n, 1))] if intercept else []
    for t in terms:
        blocks.append(term_block(t, n))
    if not blocks:
        return np.zeros((n, 0))
    return np.column_stack(blocks)


def rank(m, rtol=1e-9):
    m = np.asarray(m, dtype=float)
    if m.size == 0:
        return 0
    if m.ndim == 1:
        m = m[:, None]
    norms = np.linalg.norm(m, axis=0)
    keep = norms > 0
    if not keep.any():
        return 0
    m = m[:, keep] / norms[keep]
    s = _svd(m, compute_uv=False)
    return int((s > rtol * s[0] * max(m.shape)).sum())


def same_span(a, b):
    ra, rb = rank(a), rank(b)
    if ra != rb:
        return False, ra, rb, None
    rab = rank(np.column_stack([a, b]))
    return rab == ra, ra, rb, rab


def _normed(m):
    m = np.asarray(m, dtype=float)
    if m.ndim == 1:
        m = m[:, None]
    norms = np.linalg.norm(m, axis=0)
    keep = norms > 0
    return m[:, keep] / norms[keep], int((~keep).sum())


def min_sv_ratio(m):
    """smallest / largest singular value of the column-normalised matrix (0 if a column is zero
    or there are more columns than rows)."""
    mn, zeros = _normed(m)
    if zeros or mn.shape[1] > mn.shape[0]:
        return 0.0
    if mn.shape[1] == 0:
        return 1.0
    s = _svd(mn, compute_uv=False)
    return float(s[-1] / s[0])


def residual_outside(a, b):
    """max over the columns of b of the relative residual after projecting on span(a)."""
    bn, _ = _normed(b)
    if bn.shape[1] == 0:
        return 0.0
    an, _ = _normed(a)
    if an.shape[1] == 0:
        return 1.0
    # guard against rank deficient a: use an orthonormal basis of its numerical range
    u, s, _vt = _svd(an)
    u = u[:, s > 1e-10 * s[0]]
    res = bn - u @ (u.T @ bn)
    return float(np.max(np.linalg.norm(res, axis=0)))
