"""Reference term algebra: Wilkinson-Rogers / lme4 set semantics evaluated on the reference AST.

No operator overloading, no mutation.  A value is a Val(terms, neg) where terms is a duplicate-free
list of term keys and neg marks a leading `0` / `-1` that has not been consumed yet.
Term keys:  ('i',) intercept | ('t', factors) | ('g', effect_key, factor_key)
`factors` is a tuple (ordered identity) or a frozenset (set identity).
"""
import itertools

from . import grammar as G

INTERCEPT = ("i",)


class Undefined(Exception):
    """The formula leaves the documented language (no stated expectation): not judged."""


class Val:
    """terms: the set so far; neg: a pending removal that found no intercept yet (`0 + ...`);
    removed: the last intercept literal applied to this sum was a removal (`... + 0`, `... - 1`),
    which is what `(e | g)` asks about; murky: a removal happened inside a parenthesised operand of
    `+`, for which the documentation states no expectation under `|`."""
    __slots__ = ("terms", "neg", "removed", "murky")

    def __init__(self, terms=(), neg=False, removed=False, murky=False):
        self.terms = []
        for t in terms:
            if t not in self.terms:
                self.terms.append(t)
        self.neg = neg
        self.removed = removed or neg
        self.murky = murky


def call_name(nd):
    """Name of a call atom as documented: source text normalised to single spaces."""
    k = nd[0]
    if k == "call":
        return f"{nd[1][1]}({', '.join(call_name(a) for a in nd[2])})"
    if k == "kw":
        return f"{nd[1]}={call_name(nd[2])}"
    if k == "bin":
        return f"{call_name(nd[2])} {nd[1]} {call_name(nd[3])}"
    if k == "un":
        return f"{nd[1]}{call_name(nd[2])}"
    if k == "var":
        return nd[1]
    if k == "bq":
        return nd[1][1:-1]
    if k == "lit":
        return nd[2] if nd[2] is not None else str(nd[1])
    raise ValueError(k)


class Algebra:
    def __init__(self, identity="ordered"):
        self.identity = identity

    # -- term keys -------------------------------------------------------------------------
    def factors(self, names):
        out = []
        for n in names:
            if n not in out:
                out.append(n)
        return tuple(out) if self.identity == "ordered" else frozenset(out)

    def term(self, names):
        return ("t", self.factors(names))

    def join(self, a, b):
        if a == INTERCEPT or b == INTERCEPT or a[0] != "t" or b[0] != "t":
            raise Undefined("interaction with an intercept or a group term")
        fa = a[1] if self.identity == "ordered" else sorted(a[1])
        fb = b[1] if self.identity == "ordered" else sorted(b[1])
        return self.term(list(fa) + list(fb))

    # -- evaluation ------------------------------------------------------------------------
    def ev(self, nd):
        k = nd[0]
        if k == "lit":
            if nd[2] is None and nd[1] == 1 and not isinstance(nd[1], bool):
                return Val([INTERCEPT])
            if nd[2] is None and nd[1] == 0 and not isinstance(nd[1], bool):
                return Val([], neg=True)
            raise Undefined("literal as a term")
        if k == "var":
            if nd[2] is not None:
                raise Undefined("subset notation outside the response")
            return Val([self.term([nd[1]])])
        if k == "bq":
            return Val([self.term([nd[1][1:-1]])])
        if k == "call":
            return Val([self.term([call_name(nd)])])
        if k == "un":
            v = self.ev(nd[2])
            if nd[1] == "+":
                return v
            if v.neg and not v.terms:
                return Val([INTERCEPT])
            if not v.neg and v.terms == [INTERCEPT]:
                return Val([], neg=True)
            raise Undefined("unary minus on something that is not 0 or 1")
        if k == "bin":
            return self.binary(nd)
        raise Undefined(k)

    def plain(self, v, what):
        if v.neg:
            raise Undefined(f"intercept removal in an undocumented position ({what})")
        return v

    def binary(self, nd):
        op = nd[1]
        if op == "~":
            raise Undefined("~ below the top")
        if op == "**":
            left = self.plain(self.ev(nd[2]), "**")
            e = nd[3]
            if not (e[0] == "lit" and e[2] is None and isinstance(e[1], int)
                    and not isinstance(e[1], bool) and e[1] >= 1):
                raise Undefined("exponent is not a positive integer literal")
            if not left.terms:
                raise Undefined("power of an empty model")
            if any(t[0] != "t" for t in left.terms):
                raise Undefined("power of a model with intercept / group terms")
            out = list(left.terms)
            for order in range(2, e[1] + 1):
                for combo in itertools.combinations(left.terms, order):
                    t = combo[0]
                    for u in combo[1:]:
                        t = self.join(t, u)
                    out.append(t)
            return Val(out)
        L, R = self.ev(nd[2]), self.ev(nd[3])
        if op == "+":
            if R.neg and not R.terms:  # ... + 0   /   ... + -1
                return Val([t for t in L.terms if t != INTERCEPT], L.neg, removed=True, murky=L.murky)
            self.plain(R, "right operand of +")
            if L.neg and not L.terms and R.terms == [INTERCEPT]:  # 0 + 1
                return Val([])
            if R.terms == [INTERCEPT] and not R.removed:  # ... + 1: the last literal is an addition
                return Val(L.terms + R.terms, L.neg, removed=L.neg, murky=L.murky or (L.removed and not L.neg))
            return Val(L.terms + R.terms, L.neg, removed=L.removed, murky=L.murky or R.removed or R.murky)
        if op == "-":
            self.plain(L, "left operand of -")
            self.plain(R, "right operand of -")
            if R.terms == [INTERCEPT] and not R.removed:  # ... - 1
                return Val([t for t in L.terms if t != INTERCEPT], removed=True, murky=L.murky)
            return Val([t for t in L.terms if t not in R.terms], removed=L.removed,
                       murky=L.murky or R.removed or R.murky or INTERCEPT in R.terms)
        if op == "|":
            self.plain(R, "grouping side")
            if not R.terms or any(t[0] != "t" for t in R.terms):
                raise Undefined("grouping side is not a set of plain terms")
            if any(t[0] == "g" for t in L.terms):
                raise Undefined("nested |")
            effects = [t for t in L.terms if t != INTERCEPT]
            if L.murky:
                raise Undefined("intercept removed and added again, or removed inside an operand, on the effect side")
            if L.removed:
                if INTERCEPT in L.terms:
                    raise Undefined("0 and 1 together on the effect side")
                if not effects:
                    raise Undefined("(0 | g)")
            else:
                effects = [INTERCEPT] + effects
            return Val([("g", e, f) for e in effects for f in R.terms])
        self.plain(L, "operand of " + op)
        self.plain(R, "operand of " + op)
        if any(t[0] == "g" for t in L.terms + R.terms):
            raise Undefined("group term under " + op)
        if op == ":":
            if INTERCEPT in L.terms or INTERCEPT in R.terms:
                raise Undefined("intercept under :")
            return Val([self.join(a, b) for a in L.terms for b in R.terms])
        if op == "*":
            if INTERCEPT in L.terms or INTERCEPT in R.terms:
                raise Undefined("intercept under *")
            return Val(L.terms + R.terms + [self.join(a, b) for a in L.terms for b in R.terms])
        if op == "/":
            if INTERCEPT in L.terms or INTERCEPT in R.terms:
                raise Undefined("intercept under /")
            if not L.terms:
                raise Undefined("empty left operand of /")
            allf = []
            for t in L.terms:
                allf.extend(t[1] if self.identity == "ordered" else sorted(t[1]))
            base = self.term(allf)
            return Val(L.terms + [self.join(base, b) for b in R.terms])
        raise Undefined("operator " + op)

    def model(self, ast):
        """ast: reference AST of the whole formula *after* implicit-intercept insertion.
        Returns (response_name | None, common keys, group keys)."""
        response = None
        if ast[0] == "bin" and ast[1] == "~":
            lhs = ast[2]
            if lhs[0] == "var":
                response = lhs[1]
            elif lhs[0] == "bq":
                response = lhs[1][1:-1]
            elif lhs[0] == "call":
                response = call_name(lhs)
            else:
                raise Undefined("response is not a single term")
            ast = ast[3]
        v = self.ev(ast)
        if v.neg:
            raise Undefined("unconsumed 0")
        common = [t for t in v.terms if t[0] != "g"]
        group = [t for t in v.terms if t[0] == "g"]
        return response, common, group


def expand(text_or_ast, identity="ordered"):
    ast = G.parse(text_or_ast) if isinstance(text_or_ast, str) else text_or_ast
    return Algebra(identity).model(ast)


def real_keys(model, identity="ordered"):
    """Term keys of a real formulae Model, read through its public attributes."""
    alg = Algebra(identity)

    def tkey(t):
        if type(t).__name__ == "Intercept":
            return INTERCEPT
        return alg.term([str(c.name) for c in t.components])

    common = [tkey(t) for t in model.common_terms]
    group = [("g", tkey(t.expr), tkey(t.factor)) for t in model.group_terms]
    response = None
    if model.response is not None:
        response = str(model.response.term.name)
    return response, common, group


def expansion_bound(nd):
    """Cheap upper bound on the number of terms a formula expands to (the expansion itself is
    exponential in the nesting depth of * and **)."""
    k = nd[0]
    if k == "bin":
        l, r = expansion_bound(nd[2]), expansion_bound(nd[3])
        op = nd[1]
        if op in ("+", "-", "~", "/"):
            return l + r
        if op in (":", "|"):
            return max(1, l) * max(1, r)
        if op == "*":
            return l + r + l * r
        if op == "**":
            e = nd[3][1] if nd[3][0] == "lit" and isinstance(nd[3][1], int) else 2
            return max(1, l) ** max(1, min(e, 6))
        return l + r
    if k == "un":
        return expansion_bound(nd[2])
    return 1
