"""Attach monitors to the live `formulae` package by attribute replacement.

Boundary attach points: design_matrices, model_description, *.evaluate_new_data.
Hooks are plain callables registered per attach point; they record into core.MON and never raise
into the code under observation (exceptions of a hook are recorded as monitor errors).
"""
import numbers
import sys
import traceback

from . import core

HOOKS = {
    "dm_post": [],  # f(dm, formula, data, na_action, extra_namespace)
    "dm_exc": [],  # f(exc, formula, data, na_action, extra_namespace)
    "md_post": [],  # f(model, formula)
    "md_exc": [],  # f(exc, formula)
    "end_post": [],  # f(kind, matrix_obj, new_data, result)   kind in common/group/response
    "end_exc": [],  # f(kind, matrix_obj, new_data, exc)
}
ORIG = {}
_installed = False


def _run_hooks(name, *args):
    m = core.mon()
    if m.guard:
        return
    for hook in HOOKS[name]:
        try:
            m.guard += 1
            try:
                hook(*args)
            finally:
                m.guard -= 1
        except Exception as e:  # a broken monitor must be visible, never silent
            m.note("monitor-error:" + getattr(hook, "__name__", "?"))
            m.violation(
                "monitor-error", "".join(traceback.format_exception(e))[-1200:], key="monitor-error"
            )


def install():
    """Idempotent.  Returns the dict of original callables."""
    global _installed
    if _installed:
        return ORIG
    import formulae
    import formulae.matrices as M
    import formulae.model_description  # noqa: F401  (the package attribute is the function)

    MD = sys.modules["formulae.model_description"]

    ORIG["design_matrices"] = M.design_matrices
    ORIG["model_description"] = MD.model_description
    ORIG["common_end"] = M.CommonEffectsMatrix.evaluate_new_data
    ORIG["group_end"] = M.GroupEffectsMatrix.evaluate_new_data
    ORIG["response_end"] = M.ResponseMatrix.evaluate_new_data

    orig_dm = ORIG["design_matrices"]

    # Hand written, exactly one frame deep: Environment.capture(env, reference=1) counts frames.
    def design_matrices(formula, data, na_action="drop", env=0, extra_namespace=None):
        env_ = env + 1 if isinstance(env, numbers.Integral) and not isinstance(env, bool) else env
        m = core.mon()
        if m.guard:
            return orig_dm(formula, data, na_action, env_, extra_namespace)
        m.attach["design_matrices"] += 1
        try:
            dm = orig_dm(formula, data, na_action, env_, extra_namespace)
        except Exception as e:
            _run_hooks("dm_exc", e, formula, data, na_action, extra_namespace)
            raise
        _run_hooks("dm_post", dm, formula, data, na_action, extra_namespace)
        return dm

    design_matrices.__doc__ = orig_dm.__doc__
    design_matrices.__wrapped_by_fmon__ = True

    orig_md = ORIG["model_description"]

    def model_description(formula):
        m = core.mon()
        if m.guard:
            return orig_md(formula)
        m.attach["model_description"] += 1
        try:
            r = orig_md(formula)
        except Exception as e:
            _run_hooks("md_exc", e, formula)
            raise
        _run_hooks("md_post", r, formula)
        return r

    def make_end(kind, orig):
        def evaluate_new_data(self, data):
            m = core.mon()
            if m.guard:
                return orig(self, data)
            m.attach[kind + ".evaluate_new_data"] += 1
            try:
                r = orig(self, data)
            except Exception as e:
                _run_hooks("end_exc", kind, self, data, e)
                raise
            _run_hooks("end_post", kind, self, data, r)
            return r

        evaluate_new_data.__doc__ = orig.__doc__
        return evaluate_new_data

    # every alias taken with `from x import y` before patching
    formulae.design_matrices = design_matrices
    M.design_matrices = design_matrices
    formulae.model_description = model_description
    # `formulae.model_description` the *module* is shadowed by the function in the package
    # namespace; the module object is reachable through sys.modules
    sys.modules["formulae.model_description"].model_description = model_description
    M.model_description = model_description
    M.CommonEffectsMatrix.evaluate_new_data = make_end("common", ORIG["common_end"])
    M.GroupEffectsMatrix.evaluate_new_data = make_end("group", ORIG["group_end"])
    M.ResponseMatrix.evaluate_new_data = make_end("response", ORIG["response_end"])
    _installed = True
    return ORIG


def calibrate():
    """The shim must be transparent for caller-frame name resolution.  Returns (ok, why)."""
    import numpy as np
    import pandas as pd
    import formulae

    df = pd.DataFrame({"y": [1.0, 2.0, 3.0], "x": [1.0, 2.0, 4.0]})

    def level0():
        def fmon_probe_local_0(v):  # exists only in this frame
            return np.asarray(v) * 3.0

        with core.shadow():
            a = formulae.design_matrices("y ~ fmon_probe_local_0(x)", df)
            b = ORIG["design_matrices"]("y ~ fmon_probe_local_0(x)", df)
        return a.common.design_matrix, b.common.design_matrix

    def level1():
        def fmon_probe_local_1(v):
            return np.asarray(v) * 5.0

        def inner():
            with core.shadow():
                return formulae.design_matrices("y ~ fmon_probe_local_1(x)", df, env=1)

        return inner().common.design_matrix

    try:
        a, b = level0()
        c = level1()
    except Exception as e:
        return False, f"calibration raised {type(e).__name__}: {e}"
    if not (np.array_equal(a, b) and np.allclose(a[:, 1], [3, 6, 12]) and np.allclose(c[:, 1], [5, 10, 20])):
        return False, "shim changes name resolution"
    return True, "ok"


def quiet():
    import logging
    import warnings

    logging.disable(logging.CRITICAL)
    warnings.filterwarnings("ignore")
