"""W0: run the repository's own tests with the intrinsic contracts of one property switched on.

    FMON_PROPS=C04 FMON_OUT=/path/result.json python -m pytest /repo/tests -p fmon.pytest_plugin

Monitors are installed at configure time, i.e. before the test modules are imported, so that
`from formulae import design_matrices` in a test picks up the shim.  Contracts record and
return; the tests keep their own outcome.
"""
import importlib
import json
import os
import sys

VERIF = os.path.dirname(os.path.dirname(os.path.abspath(__file__)))
for p in (VERIF, os.path.join(VERIF, ".deps")):
    if p not in sys.path:
        sys.path.insert(0, p)

from fmon import core, attach  # noqa: E402

_STATE = {"passed": 0, "failed": 0}


def pytest_configure(config):
    props = [p for p in os.environ.get("FMON_PROPS", "").split(",") if p]
    m = core.set_monitor(core.Monitor("+".join(props)))
    m.foreign = True
    attach.install()
    ok, why = attach.calibrate()
    if not ok:
        m.note("calibration-failed:" + why)
    for p in props:
        mod = importlib.import_module(f"props.{p}")
        m.classifier = mod.spec("quick").get("classify")
        if hasattr(mod, "register_hooks"):
            mod.register_hooks(m, foreign=True)


def pytest_runtest_logreport(report):
    if report.when == "call":
        _STATE["passed" if report.passed else "failed"] += 1
        core.mon().current_case = {"origin": "repo-test", "test": report.nodeid}


def pytest_runtest_setup(item):
    core.mon().current_case = {"origin": "repo-test", "test": item.nodeid}


def pytest_sessionfinish(session, exitstatus):
    m = core.mon()
    m.notes["w0-tests-passed"] += _STATE["passed"]
    m.notes["w0-tests-failed"] += _STATE["failed"]
    out = os.environ.get("FMON_OUT")
    if out:
        with open(out + ".tmp", "w") as f:
            json.dump(m.dump(), f, default=str)
        os.replace(out + ".tmp", out)
